package sim

import (
	"context"
	"errors"
	"fmt"
	"io"
	"os"
	"syscall"
)

// ReadCall is one Read received by a scripted reader.
type ReadCall struct {
	Len     int
	N       int
	Err     error
	CtxDone bool // the context under test was already done when the call arrived
	Offset  int
}

// ScriptedReader is a source stream whose every behaviour comes from the
// script: chunk sizes, zero-length reads, an error at a byte offset, and the
// cancellation of a context at the j-th Read.
type ScriptedReader struct {
	Data         []byte
	Chunks       []int // max bytes returned per Read, cycled; 0 entries produce (0, nil) reads
	ErrAt        int   // byte offset at which ErrVal is returned instead of data (-1: never)
	ErrVal       error
	ErrWithData  bool // return the bytes before ErrAt together with the error in the same call
	CancelAtRead int  // the context is cancelled when the Read with this index (0-based) arrives (-1: never)
	Cancel       context.CancelFunc
	Ctx          context.Context // context under test (only inspected for logging)
	EOFWithData  bool            // return io.EOF together with the last bytes

	pos   int
	calls int
	Log   []ReadCall
}

func (r *ScriptedReader) Read(p []byte) (int, error) {
	idx := r.calls
	r.calls++
	call := ReadCall{Len: len(p), Offset: r.pos}
	if r.Ctx != nil && r.Ctx.Err() != nil {
		call.CtxDone = true
	}
	if r.CancelAtRead >= 0 && idx == r.CancelAtRead && r.Cancel != nil {
		r.Cancel()
	}
	n, err := r.read(p, idx)
	call.N, call.Err = n, err
	r.Log = append(r.Log, call)
	return n, err
}

func (r *ScriptedReader) read(p []byte, idx int) (int, error) {
	if len(p) == 0 {
		return 0, nil
	}
	if r.ErrAt >= 0 && r.pos >= r.ErrAt {
		return 0, r.ErrVal
	}
	if r.pos >= len(r.Data) {
		return 0, io.EOF
	}
	max := len(p)
	if len(r.Chunks) > 0 {
		c := r.Chunks[idx%len(r.Chunks)]
		if c == 0 {
			return 0, nil
		}
		if c < max {
			max = c
		}
	}
	end := r.pos + max
	if end > len(r.Data) {
		end = len(r.Data)
	}
	if r.ErrAt >= 0 && end > r.ErrAt {
		end = r.ErrAt
	}
	n := copy(p, r.Data[r.pos:end])
	r.pos += n
	if r.ErrAt >= 0 && r.pos >= r.ErrAt && r.ErrWithData {
		return n, r.ErrVal
	}
	if r.pos >= len(r.Data) && r.EOFWithData && (r.ErrAt < 0 || r.ErrAt > len(r.Data)) {
		return n, io.EOF
	}
	return n, nil
}

// ReadsAfterCtxDone counts the Read calls that arrived when the context was already done.
func (r *ScriptedReader) ReadsAfterCtxDone() int {
	c := 0
	for _, l := range r.Log {
		if l.CtxDone {
			c++
		}
	}
	return c
}

// Delivered is the number of bytes handed out so far.
func (r *ScriptedReader) Delivered() int { return r.pos }

// scriptedReaderWT adds io.WriterTo to a scripted reader (io.Copy prefers it).
type scriptedReaderWT struct{ *ScriptedReader }

func (r scriptedReaderWT) WriteTo(w io.Writer) (int64, error) {
	var total int64
	buf := make([]byte, 777)
	for {
		n, err := r.Read(buf)
		if n > 0 {
			m, werr := w.Write(buf[:n])
			total += int64(m)
			if werr != nil {
				return total, werr
			}
			if m < n {
				return total, io.ErrShortWrite
			}
		}
		if err == io.EOF {
			return total, nil
		}
		if err != nil {
			return total, err
		}
	}
}

// WriteCall is one Write received by a scripted writer.
type WriteCall struct {
	Len     int
	N       int
	Err     error
	CtxDone bool
}

// ScriptedWriter is a sink with scripted short writes and errors.
type ScriptedWriter struct {
	Buf           []byte
	ErrAt         int // byte offset at which ErrVal is returned (-1 never)
	ErrVal        error
	ShortEvery    int // every n-th write (1-based) accepts only half of the bytes without error (0: never)
	Ctx           context.Context
	CancelAtWrite int
	Cancel        context.CancelFunc
	calls         int
	Log           []WriteCall
}

func (w *ScriptedWriter) Write(p []byte) (int, error) {
	idx := w.calls
	w.calls++
	call := WriteCall{Len: len(p)}
	if w.Ctx != nil && w.Ctx.Err() != nil {
		call.CtxDone = true
	}
	if w.CancelAtWrite >= 0 && idx == w.CancelAtWrite && w.Cancel != nil {
		w.Cancel()
	}
	n, err := w.write(p, idx)
	call.N, call.Err = n, err
	w.Log = append(w.Log, call)
	return n, err
}

func (w *ScriptedWriter) write(p []byte, idx int) (int, error) {
	if w.ErrAt >= 0 && len(w.Buf)+len(p) > w.ErrAt {
		room := w.ErrAt - len(w.Buf)
		if room < 0 {
			room = 0
		}
		w.Buf = append(w.Buf, p[:room]...)
		return room, w.ErrVal
	}
	if w.ShortEvery > 0 && (idx+1)%w.ShortEvery == 0 && len(p) > 1 {
		h := len(p) / 2
		w.Buf = append(w.Buf, p[:h]...)
		return h, nil
	}
	w.Buf = append(w.Buf, p...)
	return len(p), nil
}

func (w *ScriptedWriter) WritesAfterCtxDone() int {
	c := 0
	for _, l := range w.Log {
		if l.CtxDone {
			c++
		}
	}
	return c
}

// scriptedWriterRF adds io.ReaderFrom to a scripted writer.
type scriptedWriterRF struct{ *ScriptedWriter }

func (w scriptedWriterRF) ReadFrom(r io.Reader) (int64, error) {
	var total int64
	buf := make([]byte, 1031)
	for {
		n, err := r.Read(buf)
		if n > 0 {
			m, werr := w.Write(buf[:n])
			total += int64(m)
			if werr != nil {
				return total, werr
			}
			if m < n {
				return total, io.ErrShortWrite
			}
		}
		if err == io.EOF {
			return total, nil
		}
		if err != nil {
			return total, err
		}
	}
}

var errScripted = errors.New("scripted stream failure")

// scriptedErrKinds: what a failing source or sink returns. A stream cut short inside a decoder (gzip, flate, a zip
// member, a short HTTP body) surfaces as io.ErrUnexpectedEOF, bare or wrapped: an end-of-stream *kind* that is
// nevertheless a failure, never a normal end of the data.
var scriptedErrKinds = []error{
	errScripted,
	io.ErrUnexpectedEOF,
	fmt.Errorf("flate: truncated member: %w", io.ErrUnexpectedEOF),
	io.ErrClosedPipe,
	&os.PathError{Op: "read", Path: "source", Err: syscall.EIO},
}

func scriptedErr(ch *Chooser, label string) error {
	return scriptedErrKinds[ch.Pick(label, 3, 2, 2, 1, 1)]
}

// genBytes produces deterministic content from a seed; every 251-byte window is distinct enough for prefix checks.
func genBytes(seed uint64, n int) []byte {
	b := make([]byte, n)
	s := seed | 1
	for i := 0; i < n; i += 8 {
		v := splitmix64(&s)
		for j := 0; j < 8 && i+j < n; j++ {
			b[i+j] = byte(v >> (8 * j))
		}
	}
	return b
}

func chunkPattern(ch *Chooser, kind string) []int {
	switch ch.Intn(kind, 7) {
	case 0:
		return nil // as large as the caller's buffer
	case 1:
		return []int{1}
	case 2:
		return []int{7, 0, 513, 1, 0, 0, 4096}
	case 3:
		return []int{512}
	case 4:
		return []int{511, 513}
	case 5:
		return []int{32768, 1, 32767}
	default:
		n := 1 + ch.Intn(kind+"n", 5)
		out := make([]int, n)
		nonzero := false
		for i := range out {
			out[i] = ch.Intn(kind+"v", 9000)
			nonzero = nonzero || out[i] > 0
		}
		if !nonzero {
			out[len(out)-1] = 1 // a reader that returns (0, nil) for ever is outside any contract
		}
		return out
	}
}

func lengthClass(ch *Chooser, kind string) int {
	switch ch.Pick(kind, 2, 3, 3, 3, 2, 1) {
	case 0:
		return ch.Intn(kind+"tiny", 3) // 0,1,2
	case 1:
		return []int{511, 512, 513, 1023, 1024, 1025}[ch.Intn(kind+"b", 6)]
	case 2:
		return []int{32767, 32768, 32769, 65536, 65537}[ch.Intn(kind+"c", 5)]
	case 3:
		return 3 + ch.Intn(kind+"small", 3000)
	case 4:
		return 60000 + ch.Intn(kind+"mid", 140000)
	default:
		return (1 << 20) - ch.Intn(kind+"big", 3)
	}
}

func describeChunks(c []int) string {
	if c == nil {
		return "buffer-sized"
	}
	return fmt.Sprint(c)
}

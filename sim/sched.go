package sim

import (
	"context"
	"errors"
	"fmt"
	"hash/fnv"
	"io"
	"os"
	"runtime"
	"sort"
	"strings"
	"sync"
	"sync/atomic"
	"syscall"
	"testing/synctest"
	"time"
)

// Sim is the seeded scheduler of engine E1. It must be used inside a
// synctest bubble. Goroutines reach it through Seam.Before/After (Attach).
type Sim struct {
	Ch *Chooser

	mu      sync.Mutex
	parked  []*parkReq
	arrival uint64
	active  int
	notify  chan struct{}

	draining atomic.Bool

	Steps    int
	MaxSteps int
	// IdleLimit: simulated time with nothing parked and tasks still active
	// after which the run is declared stuck.
	IdleLimit time.Duration
	Deadline  time.Time // simulated instant after which the run is cut (budget)

	// Latencies to draw from for each operation (strictly positive).
	Latencies []time.Duration
	// StallNum/StallDen: probability that the scheduler lets simulated time
	// pass (one of Stalls) instead of releasing a parked operation.
	StallNum, StallDen int
	Stalls             []time.Duration

	// Decide, when set, is called by the scheduler when it releases the
	// first half of an operation; it returns the fault for it (may be nil).
	Decide func(op *Op) *Fault
	// OnEffect is called by the released goroutine right after the
	// operation's effect was applied (still inside the scheduling step).
	OnEffect func(op *Op)
	// OnDone is called by the operation's goroutine at the simulated instant
	// the result is handed back to the library (after latency and completion park).
	OnDone func(op *Op)

	dead map[int]bool
	// DeadErr is returned by operations of dead clients.
	DeadErr error

	Trace    *Trace
	Canon    func(string) string
	Outcome  string // "", "budget", "stuck"
	Panics   []string
	Start    time.Time
	taskSeq  int
	StallCnt int
	End      time.Duration
}

type parkReq struct {
	client  int
	key     string
	origin  string
	arrival uint64
	done    bool
	op      *Op
	ch      chan *Fault
}

func NewSim(ch *Chooser) *Sim {
	return &Sim{
		Ch:        ch,
		notify:    make(chan struct{}, 1),
		MaxSteps:  20000,
		IdleLimit: time.Hour,
		Latencies: []time.Duration{100 * time.Microsecond, 300 * time.Microsecond, time.Millisecond, 2 * time.Millisecond},
		dead:      map[int]bool{},
		DeadErr:   fmt.Errorf("simulated client death: input/output error"),
		Trace:     NewTrace(),
		Start:     time.Now(),
	}
}

func (s *Sim) poke() {
	select {
	case s.notify <- struct{}{}:
	default:
	}
}

// Go starts a harness task (a simulated process' main goroutine).
func (s *Sim) Go(name string, f func()) {
	s.mu.Lock()
	s.active++
	s.mu.Unlock()
	go func() {
		defer func() {
			if r := recover(); r != nil {
				buf := make([]byte, 8192)
				buf = buf[:runtime.Stack(buf, false)]
				s.mu.Lock()
				s.Panics = append(s.Panics, fmt.Sprintf("task %s: %v\n%s", name, r, buf))
				s.mu.Unlock()
			}
			s.mu.Lock()
			s.active--
			s.mu.Unlock()
			s.poke()
		}()
		f()
	}()
}

// Kill marks a client dead: its operations fail without effect from now on.
func (s *Sim) Kill(client int) {
	s.mu.Lock()
	s.dead[client] = true
	s.mu.Unlock()
}

func (s *Sim) IsDead(client int) bool {
	s.mu.Lock()
	defer s.mu.Unlock()
	return s.dead[client]
}

// Attach wires a seam to the scheduler.
func (s *Sim) Attach(seam *Seam) {
	seam.Before = func(op *Op) *Fault {
		if s.draining.Load() {
			return nil
		}
		f := s.park(op, false)
		if f != nil && f.Err == errKilledWhileParked {
			return &Fault{Err: s.DeadErr}
		}
		return f
	}
	seam.After = func(op *Op) {
		if s.draining.Load() {
			return
		}
		if s.OnEffect != nil {
			s.OnEffect(op)
		}
		s.Trace.Add(fmt.Sprintf("%d c%d %s %s %s %d", int64(s.Elapsed()), op.Client, op.Name, s.canon(op.Path), errClass(op.Err), op.N))
		lat := opLatency(op)
		if lat > 0 {
			time.Sleep(lat)
		}
		s.park(op, true)
		if s.OnDone != nil && !s.draining.Load() {
			s.OnDone(op)
		}
	}
}

var errKilledWhileParked = fmt.Errorf("killed while parked")

func opLatency(op *Op) time.Duration {
	if op == nil {
		return 0
	}
	return op.lat
}

func errClass(err error) string {
	switch {
	case err == nil:
		return "ok"
	case err == io.EOF:
		return "eof"
	case os.IsExist(err):
		return "EEXIST"
	case os.IsNotExist(err):
		return "ENOENT"
	case errors.Is(err, syscall.ENOTEMPTY):
		return "ENOTEMPTY"
	case errors.Is(err, syscall.ENOTDIR):
		return "ENOTDIR"
	case errors.Is(err, syscall.EISDIR):
		return "EISDIR"
	}
	return "err"
}

func (s *Sim) canon(p string) string {
	if s.Canon != nil {
		return s.Canon(p)
	}
	return p
}

// Yield is an explicit scheduling point for harness tasks (no disk access).
func (s *Sim) Yield(client int, what string) {
	if s.draining.Load() {
		return
	}
	op := &Op{Client: client, Name: "yield", Path: what}
	s.park(op, true)
}

func (s *Sim) park(op *Op, done bool) *Fault {
	p := &parkReq{client: op.Client, op: op, done: done, ch: make(chan *Fault, 1)}
	p.key = op.Name + " " + s.canon(op.Path)
	if op.Path2 != "" {
		p.key += " " + s.canon(op.Path2)
	}
	if done {
		p.key += " <done>"
	}
	p.origin = originTag()
	s.mu.Lock()
	if s.draining.Load() {
		s.mu.Unlock()
		return nil
	}
	s.arrival++
	p.arrival = s.arrival
	s.parked = append(s.parked, p)
	s.mu.Unlock()
	s.poke()
	return <-p.ch
}

// originTag names the outermost repository function on the caller's stack,
// which distinguishes e.g. the heartbeat goroutine from the API caller.
var originCache sync.Map // [64]uintptr -> string

func originTag() string {
	var pcs [64]uintptr
	n := runtime.Callers(3, pcs[:])
	if v, ok := originCache.Load(pcs); ok {
		return v.(string)
	}
	tag := originTagSlow(pcs[:n])
	originCache.Store(pcs, tag)
	return tag
}

func originTagSlow(pcs []uintptr) string {
	frames := runtime.CallersFrames(pcs)
	last := ""
	for {
		fr, more := frames.Next()
		if strings.Contains(fr.Function, "golang-utils/utils/") {
			last = fr.Function
		}
		if !more {
			break
		}
	}
	if i := strings.LastIndex(last, "/"); i >= 0 {
		last = last[i+1:]
	}
	return last
}

var stackHasCache sync.Map

type stackHasKey struct {
	pcs [48]uintptr
	sub string
}

// StackHas reports whether a repository frame whose function name contains sub
// is on the calling goroutine's stack (cached by program counters).
func StackHas(sub string) bool {
	var k stackHasKey
	k.sub = sub
	n := runtime.Callers(2, k.pcs[:])
	if v, ok := stackHasCache.Load(k); ok {
		return v.(bool)
	}
	frames := runtime.CallersFrames(k.pcs[:n])
	found := false
	for {
		fr, more := frames.Next()
		if strings.Contains(fr.Function, sub) {
			found = true
			break
		}
		if !more {
			break
		}
	}
	stackHasCache.Store(k, found)
	return found
}

// RepoStack returns the repository frames (function names, innermost first)
// of the calling goroutine; used by oracles to build violation signatures.
func RepoStack(skip int) []string {
	var pcs [64]uintptr
	n := runtime.Callers(skip+2, pcs[:])
	frames := runtime.CallersFrames(pcs[:n])
	var out []string
	for {
		fr, more := frames.Next()
		if strings.Contains(fr.Function, "golang-utils/utils/") {
			f := fr.Function
			if i := strings.LastIndex(f, "/"); i >= 0 {
				f = f[i+1:]
			}
			out = append(out, f)
		}
		if !more {
			break
		}
	}
	return out
}

// Run drives the bubble until every harness task has finished (or a budget is
// exhausted), then drains. It must be called from the bubble's root goroutine.
func (s *Sim) Run(ctxCancel context.CancelFunc) {
	for {
		synctest.Wait()
		s.mu.Lock()
		n := len(s.parked)
		act := s.active
		s.mu.Unlock()
		if n == 0 {
			if act == 0 {
				break
			}
			t := time.NewTimer(s.IdleLimit)
			select {
			case <-s.notify:
				t.Stop()
				continue
			case <-t.C:
				s.Outcome = "stuck"
			}
			break
		}
		if s.Steps >= s.MaxSteps || (!s.Deadline.IsZero() && time.Now().After(s.Deadline)) {
			s.Outcome = "budget"
			break
		}
		// drain stale notifications
		select {
		case <-s.notify:
		default:
		}
		s.mu.Lock()
		sort.SliceStable(s.parked, func(i, j int) bool {
			a, b := s.parked[i], s.parked[j]
			if a.client != b.client {
				return a.client < b.client
			}
			if a.origin != b.origin {
				return a.origin < b.origin
			}
			if a.key != b.key {
				return a.key < b.key
			}
			return a.arrival < b.arrival
		})
		cands := s.parked
		s.mu.Unlock()

		if s.StallNum > 0 && len(s.Stalls) > 0 && s.Ch.Bool("stall", s.StallNum, s.StallDen) {
			d := s.Stalls[s.Ch.Intn("stalllen", len(s.Stalls))]
			s.StallCnt++
			s.Trace.Add(fmt.Sprintf("stall %v", d))
			time.Sleep(d)
			continue
		}
		idx := s.Ch.Intn("sched", len(cands))
		p := cands[idx]
		s.mu.Lock()
		s.parked = append(append([]*parkReq{}, cands[:idx]...), cands[idx+1:]...)
		deadNow := s.dead[p.client]
		s.mu.Unlock()
		s.Steps++
		var f *Fault
		if !p.done {
			if deadNow {
				f = &Fault{Err: errKilledWhileParked}
			} else {
				if s.Decide != nil {
					f = s.Decide(p.op)
				}
				p.op.lat = s.Latencies[s.Ch.Intn("lat", len(s.Latencies))]
				if f != nil && f.Latency > 0 {
					p.op.lat += f.Latency // a slow operation: it takes effect, its completion is delayed
				}
			}
		}
		p.ch <- f
	}
	s.End = s.Elapsed()
	// drain: operations stop being scheduling points, contexts are cancelled,
	// everything parked is released.
	s.draining.Store(true)
	if ctxCancel != nil {
		ctxCancel()
	}
	s.mu.Lock()
	rest := s.parked
	s.parked = nil
	s.mu.Unlock()
	for _, p := range rest {
		p.ch <- nil
	}
	// let sleepers (operation latencies, cancelled back-offs) wake up and
	// finish: once the root goroutine returns the bubble clock stops.
	for i := 0; i < 3; i++ {
		time.Sleep(time.Minute)
		synctest.Wait()
	}
}

// Elapsed is the simulated time since the Sim was created.
func (s *Sim) Elapsed() time.Duration { return time.Since(s.Start) }

// Trace accumulates a digest (and optionally the lines) of a run.
type Trace struct {
	mu    sync.Mutex
	h     uint64
	Keep  bool
	Lines []string
	n     int
}

func NewTrace() *Trace { return &Trace{h: 14695981039346656037} }

func (t *Trace) Add(line string) {
	t.mu.Lock()
	defer t.mu.Unlock()
	hh := fnv.New64a()
	hh.Write([]byte(line))
	t.h = (t.h ^ hh.Sum64()) * 1099511628211
	t.n++
	if t.Keep {
		t.Lines = append(t.Lines, line)
	}
}

// Note records a line for human readers only: it does not enter the digest.
// Used for harness-level events that may follow a timer wake-up shared with
// another goroutine (their relative order is then not decided by the scheduler).
func (t *Trace) Note(line string) {
	t.mu.Lock()
	defer t.mu.Unlock()
	if t.Keep {
		t.Lines = append(t.Lines, line)
	}
}

func (t *Trace) Digest() uint64 {
	t.mu.Lock()
	defer t.mu.Unlock()
	return t.h
}

func (t *Trace) Len() int {
	t.mu.Lock()
	defer t.mu.Unlock()
	return t.n
}

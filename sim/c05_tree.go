package sim

import (
	"context"
	"fmt"
	"os"
	"path/filepath"
	"runtime"
	"strings"
	"sync"
	"sync/atomic"
	"time"

	"github.com/ARM-software/golang-utils/utils/commonerrors"
	"github.com/ARM-software/golang-utils/utils/subprocess"
	"github.com/ARM-software/golang-utils/utils/subprocess/command"
	"github.com/ARM-software/golang-utils/utils/subprocess/supervisor"
)

func init() {
	Register(&Prop{
		ID:             "C05",
		Run:            runC05,
		Level:          "exploration",
		ReplayAttempts: 3,
		Rule: "engine 'proc' (real kernel, real processes, lock-stepped): a generated process tree - every member is the harness' helper binary executing a script: chains and fans of descendants (depth 1..3), background children that keep or close the inherited output pipes, members ignoring SIGTERM, parents that exit before their children, members that leave the process group (excluded from the oracle, as the property says) - is started through the library (Execute, Start, or the supervisor's Run loop) and stopped (context cancel, expiry of the context's deadline, Cancel(), Stop(), Restart()) at a scripted instant: before the tree has finished spawning, right after it is complete, or later; every member records its pid; " +
			"oracle (end state, wall-clock bounds well inside the descendants' 20 s lifetime): Execute()/Stop()/Restart() return within 8 s of the stop request; 2 s later no recorded member of the process group is alive; IsOn() is false (true after Restart, whose new tree is then stopped). non-trivial = the tree has at least one descendant; distinct = distinct scenario digest",
		Real:        []string{"utils/subprocess (executor, command wrapper incl. process-group attributes, monitoring)", "utils/proc (tree kill: SIGTERM, group kill, children)", "os/exec, gopsutil, the Linux kernel (process groups, signals, pipes)"},
		Stub:        []string{"the process tree: harness helper binary executing generated scripts, parked at script steps by sleeping; every helper self-destructs after 25 s", "nothing else: time is real"},
		Assumptions: []string{"not simulated time: there is no seam between the library and the kernel's process table, so this is the weakest member of the technique family - seeded scenarios on the real kernel, end-state oracles, wall-clock bounds", "built with go1.26.8; go-deadlock detection disabled", "a scenario is re-executed up to 3 times on replay"},
	})
}

type c05Member struct {
	name       string
	ignoreTerm bool
	closePipes bool
	newGroup   bool
	children   []*c05Member
	exitEarly  bool // exits on its own, exitAfter ms after spawning its children
	exitAfter  int
	foreground bool // parent waits for it
	suspended  bool // suspends itself (SIGSTOP) once its children are started
}

func (m *c05Member) count(excludeNewGroup bool) int {
	n := 1
	if excludeNewGroup && m.newGroup {
		return 0
	}
	for _, c := range m.children {
		n += c.count(excludeNewGroup)
	}
	return n
}

func (m *c05Member) describe() string {
	var flags []string
	if m.ignoreTerm {
		flags = append(flags, "ignTERM")
	}
	if m.closePipes {
		flags = append(flags, "closedPipes")
	}
	if m.newGroup {
		flags = append(flags, "ownGroup")
	}
	if m.exitEarly {
		flags = append(flags, fmt.Sprintf("exitsAfter%dms", m.exitAfter))
	}
	if m.foreground {
		flags = append(flags, "fg")
	}
	if m.suspended {
		flags = append(flags, "SIGSTOPped")
	}
	s := m.name
	if len(flags) > 0 {
		s += "[" + strings.Join(flags, ",") + "]"
	}
	if len(m.children) > 0 {
		var cs []string
		for _, c := range m.children {
			cs = append(cs, c.describe())
		}
		s += "(" + strings.Join(cs, " ") + ")"
	}
	return s
}

func (m *c05Member) script(isRoot bool) *hScript {
	s := &hScript{Name: m.name}
	if m.ignoreTerm {
		s.Steps = append(s.Steps, hStep{Op: "ignoreterm"})
	}
	if m.closePipes {
		s.Steps = append(s.Steps, hStep{Op: "closepipes"})
	}
	if isRoot {
		s.Steps = append(s.Steps, hStep{Op: "write", Fd: 1, Data: "root started\n"})
	}
	for _, c := range m.children {
		s.Steps = append(s.Steps, hStep{Op: "spawn", Child: c.script(false), Wait: c.foreground, NewGroup: c.newGroup})
	}
	s.Steps = append(s.Steps, hStep{Op: "mark", Name: m.name})
	if m.suspended {
		s.Steps = append(s.Steps, hStep{Op: "stopself"})
	}
	if m.exitEarly {
		ms := m.exitAfter
		if ms == 0 {
			ms = 30
		}
		s.Steps = append(s.Steps, hStep{Op: "sleep", Ms: ms}, hStep{Op: "exit", Code: 0})
	} else {
		s.Steps = append(s.Steps, hStep{Op: "sleep", Ms: 20000}, hStep{Op: "exit", Code: 0})
	}
	return s
}

func genC05Tree(ch *Chooser, name string, depth int) *c05Member {
	m := &c05Member{name: name}
	m.ignoreTerm = ch.Pick("ignterm", 3, 1) == 1
	if depth > 0 {
		m.closePipes = ch.Pick("closepipes", 2, 1) == 1
		m.newGroup = ch.Pick("newgroup", 9, 1) == 1
	}
	nkids := 0
	if depth < 3 {
		nkids = ch.Pick("nkids", 3, 4, 2, 1)
		if depth == 0 && nkids == 0 && ch.Intn("forcekid", 4) != 0 {
			nkids = 1
		}
	}
	for i := 0; i < nkids; i++ {
		c := genC05Tree(ch, fmt.Sprintf("%s.%d", name, i), depth+1)
		m.children = append(m.children, c)
	}
	m.suspended = ch.Pick("suspended", 7, 1) == 1
	if len(m.children) > 0 {
		m.exitEarly = !m.suspended && ch.Pick("exitearly", 5, 2) == 1
		if m.exitEarly {
			m.exitAfter = []int{30, 30, 150, 400, 800}[ch.Intn("exitafter", 5)]
		}
		// a foreground child makes the parent wait: only the last child may be in the foreground
		if !m.exitEarly && ch.Pick("fg", 3, 1) == 1 {
			m.children[len(m.children)-1].foreground = true
		}
	}
	if len(m.children) == 0 && depth > 0 && !m.suspended && ch.Pick("leafexits", 5, 1) == 1 {
		// a short-lived leaf: it keeps whatever it inherited (e.g. the output pipes) only for a while
		m.exitEarly = true
		m.exitAfter = []int{30, 150, 400, 800}[ch.Intn("exitafter", 4)]
	}
	return m
}

func runC05(rc *RunCtx) {
	ch := rc.Ch
	res := rc.Res
	if helperPath() == "" {
		res.Infra = "VERIF_HELPER not set"
		return
	}
	tree := genC05Tree(ch, "r", 0)
	startMode := ch.Pick("start", 3, 3, 1)     // 0 Execute, 1 Start, 2 supervisor (Run: Execute in a restart loop)
	stopMode := ch.Pick("stop", 3, 3, 2, 3, 3) // 0 ctx cancel, 1 ctx deadline, 2 Cancel(), 3 Stop(), 4 Restart()
	if startMode == 2 {
		stopMode = ch.Intn("stopsup", 2) // a supervisor is stopped through its context
		tree.exitEarly = false           // one generation only: a command that ends by itself is restarted, its orphans are not "the running subprocess"
	}
	if startMode == 0 && stopMode >= 3 {
		stopMode = ch.Intn("stopexec", 3) // Stop()/Restart() on a blocking Execute make no sense: another goroutine could call them, kept simple
	}
	when := ch.Pick("when", 2, 5, 2) // 0 early (tree still spawning), 1 right after the tree is complete, 2 later
	if tree.exitEarly && when != 2 && ch.Intn("latewhenselfending", 2) == 0 {
		when = 2 // a command that ends by itself is most interesting once it has: stop it "later"
	}
	// daemon style: the command itself exits once it has launched descendants that keep none of its output pipes; what
	// is stopped later is a process group without its leader
	if len(tree.children) > 0 && ch.Pick("daemonstyle", 4, 1) == 1 && startMode != 2 {
		tree.exitEarly, tree.suspended = true, false
		var detach func(m *c05Member)
		detach = func(m *c05Member) {
			for _, c := range m.children {
				c.closePipes, c.foreground = true, false
				detach(c)
			}
		}
		detach(tree)
		when = 2
		res.Probe("daemon-style-tree")
	}
	// immediately: Stop() / Restart() follow Start() with nothing in between, on one processor - the goroutines the
	// library has just launched (monitoring) have not run yet; the request must not be lost
	if startMode == 1 && stopMode >= 3 && ch.Intn("immediately", 5) == 0 {
		when = 3
	}
	startName := []string{"Execute", "Start", "Supervisor"}[startMode]
	stopName := []string{"context-cancel", "context-deadline", "Cancel()", "Stop()", "Restart()"}[stopMode]
	whenName := []string{"while-spawning", "tree-complete", "later", "immediately-after-Start"}[when]
	res.Config = fmt.Sprintf("tree=%s start=%s stop=%s when=%s", tree.describe(), startName, stopName, whenName)
	res.Digest = hashStrings(res.Config)
	members := tree.count(true)
	res.NonTrivial = members > 1
	res.Steps = tree.count(false)
	dir, cleanup, err := scenarioDir()
	if err != nil {
		res.Infra = err.Error()
		return
	}
	defer cleanup()
	defer killRecorded(dir)
	script, err := writeScript(dir, tree.script(true))
	if err != nil {
		res.Infra = err.Error()
		return
	}
	rec := &recLogger{}
	ctx, cancel := context.WithCancel(context.Background())
	defer cancel()
	var deadlineCancel context.CancelFunc
	expiring := newExpiringContext(ctx)
	// a quarter of the scenarios go through the "run as" entry points with a harmless translator (env <command>)
	asWrapper := startMode != 2 && ch.Intn("aswrapper", 4) == 0
	res.Config += fmt.Sprintf(" throughSetupAs(env)=%v", asWrapper)
	res.Digest = hashStrings(res.Config)
	var p *subprocess.Subprocess
	if asWrapper {
		p = &subprocess.Subprocess{}
		err = p.SetupAs(expiring, rec, "start", "success", "failure", command.NewCommandAsDifferentUser("env"), helperPath(), script)
		res.Probe("started-through-SetupAs")
	} else {
		p, err = subprocess.New(expiring, rec, "start", "success", "failure", helperPath(), script)
	}
	if err != nil {
		res.Infra = "subprocess.New: " + err.Error()
		return
	}
	execDone := make(chan error, 1)
	var execReturnedAt atomic.Int64
	prevProcs := runtime.GOMAXPROCS(0)
	t0 := time.Now()
	var supMu sync.Mutex
	if startMode == 2 {
		sup := supervisor.NewSupervisor(func(c context.Context) (*subprocess.Subprocess, error) {
			np, nerr := subprocess.New(c, rec, "start", "success", "failure", helperPath(), script)
			if nerr == nil {
				supMu.Lock()
				p = np
				supMu.Unlock()
			}
			return np, nerr
		}, supervisor.WithRestartDelay(10*time.Millisecond))
		go func() { execDone <- sup.Run(expiring) }()
	} else if startMode == 0 {
		go func() {
			e := p.Execute()
			execReturnedAt.Store(time.Now().UnixNano())
			execDone <- e
		}()
	} else {
		if when == 3 {
			prevProcs = runtime.GOMAXPROCS(1)
			defer runtime.GOMAXPROCS(prevProcs)
		}
		if err := p.Start(); err != nil {
			res.Infra = "Start: " + err.Error()
			return
		}
	}
	// wait for the scripted instant
	switch when {
	case 3:
	case 0:
		// "running" starts when the root process exists: a stop request placed before Execute's goroutine has got as far
		// as starting the command is not a request for a running subprocess (Execute resets the cancellation state first)
		deadline := time.Now().Add(4 * time.Second)
		for time.Now().Before(deadline) {
			if ents, _ := os.ReadDir(filepath.Join(dir, "pids")); len(ents) >= 1 {
				break
			}
			time.Sleep(time.Millisecond)
		}
		time.Sleep(time.Duration(ch.Intn("earlyms", 8)) * time.Millisecond)
	default:
		deadline := time.Now().Add(4 * time.Second)
		for time.Now().Before(deadline) {
			ents, _ := os.ReadDir(filepath.Join(dir, "pids"))
			if len(ents) >= tree.count(false) {
				break
			}
			time.Sleep(2 * time.Millisecond)
		}
		if when == 2 {
			time.Sleep(time.Duration(20+ch.Intn("laterms", 150)) * time.Millisecond)
		}
	}
	viol := func(sig, msg string) {
		res.Violate("process-tree", fmt.Sprintf("tree|%s|%s|%s", startName, stopName, sig), res.Config+": "+msg)
	}
	// a blocking Execute that has already returned (the root exited on its own) is no longer a running subprocess:
	// stopping it afterwards is outside the property
	if startMode != 1 {
		select {
		case e := <-execDone:
			res.Probe("execute-returned-before-the-stop-request")
			execDone <- e
			res.NonTrivial = false
			if rc.KeepTrace {
				res.Trace = []string{res.Config, "Execute returned before the stop request: scenario vacuous"}
			}
			return
		default:
		}
	}
	// stop request
	stopAt := time.Now()
	stopDone := make(chan error, 1)
	switch stopMode {
	case 0:
		cancel()
		stopDone <- nil
	case 1:
		// the context given to the library expires (its Err becomes DeadlineExceeded) at the scripted instant
		expiring.expire()
		stopDone <- nil
	case 2:
		p.Cancel()
		stopDone <- nil
	case 3:
		if when == 3 {
			stopDone <- p.Stop() // in line: before anything else gets the processor
			runtime.GOMAXPROCS(prevProcs)
			break
		}
		go func() { stopDone <- p.Stop() }()
	case 4:
		if when == 3 {
			stopDone <- p.Restart()
			runtime.GOMAXPROCS(prevProcs)
			break
		}
		go func() { stopDone <- p.Restart() }()
	}
	if deadlineCancel != nil {
		defer deadlineCancel()
	}
	returned := true
	select {
	case <-stopDone:
	case <-time.After(8 * time.Second):
		returned = false
		viol("stop-call-blocked", fmt.Sprintf("%s did not return within 8 s", stopName))
	}
	if startMode != 1 {
		left := 8*time.Second - time.Since(stopAt)
		if left < 0 {
			left = 0
		}
		select {
		case execErr := <-execDone:
			// a command that ends by itself (the root exits early) may do so at the very moment of the stop request:
			// when Execute does not report a context kind it did not act on the request - it had finished on its own,
			// which is the same situation as "returned before the stop request", only decided a moment later
			// ... provided Execute was over within 100 ms of the request: one that went on for longer (e.g. waiting for the
			// output pipes a descendant still holds) was running when it was asked to stop, whatever it then returns
			if startMode == 0 && tree.exitEarly && !commonerrors.Any(execErr, commonerrors.ErrCancelled, commonerrors.ErrTimeout) &&
				time.Unix(0, execReturnedAt.Load()).Sub(stopAt) < 100*time.Millisecond {
				res.Probe("execute-ended-by-itself-at-the-stop-request")
				res.NonTrivial = false
				if rc.KeepTrace {
					res.Trace = []string{res.Config, fmt.Sprintf("Execute returned %v: the command had ended by itself when the stop request arrived: scenario vacuous", execErr)}
				}
				return
			}
		case <-time.After(left):
			returned = false
			viol("execute-blocked", fmt.Sprintf("%s had not returned 8 s after %s", map[int]string{0: "Execute()", 2: "Supervisor.Run()"}[startMode], stopName))
		}
	}
	res.SimNanos = int64(time.Since(t0))
	if stopMode == 4 && returned {
		// Restart started a new tree: it must be on; stop it for good
		if !p.IsOn() {
			res.Probe("restart-left-process-off")
		}
		st := make(chan error, 1)
		go func() { st <- p.Stop() }()
		select {
		case <-st:
		case <-time.After(8 * time.Second):
			viol("stop-call-blocked", "Stop() after Restart() did not return within 8 s")
		}
	}
	// survivors: give the kernel 2 s
	var live []string
	limit := time.Now().Add(2 * time.Second)
	for {
		live = live[:0]
		for _, l := range livePids(dir) {
			if strings.Contains(l, ",zombie-child-of-caller)") {
				continue
			}
			live = append(live, l)
		}
		// members that left the group on purpose are excluded
		var inGroup []string
		for _, l := range live {
			name := l[strings.Index(l, "(")+1:]
			name = name[:strings.Index(name, ",")]
			if !memberLeftGroup(tree, name) {
				inGroup = append(inGroup, l)
			}
		}
		live = inGroup
		if len(live) == 0 || time.Now().After(limit) {
			break
		}
		time.Sleep(20 * time.Millisecond)
	}
	if len(live) > 0 {
		kinds := map[string]bool{}
		for _, l := range live {
			name := l[strings.Index(l, "(")+1:]
			name = name[:strings.Index(name, ",")]
			if name == "r" {
				kinds["root"] = true
			} else {
				kinds["descendant"] = true
			}
		}
		var ks []string
		for _, k := range []string{"root", "descendant"} {
			if kinds[k] {
				ks = append(ks, k)
			}
		}
		viol("survivors|"+strings.Join(ks, "+"), fmt.Sprintf("%d of %d members of the process group are still alive 2 s after the stop completed: %v", len(live), members, live))
	}
	supMu.Lock()
	defer supMu.Unlock()
	if returned {
		// Cancel() and context cancellation are asynchronous requests: IsOn() gets the same 2 s as the processes
		for p.IsOn() && time.Now().Before(limit) {
			time.Sleep(10 * time.Millisecond)
		}
		if p.IsOn() {
			viol("still-on", "IsOn() is still true 2 s after the stop")
		}
	}
	if rc.KeepTrace {
		res.Trace = []string{res.Config, fmt.Sprintf("elapsed %v, live=%v", time.Since(t0), live)}
	}
}

func memberLeftGroup(m *c05Member, name string) bool {
	// a member is outside the group if it or one of its ancestors was started with its own group
	var walk func(n *c05Member, out bool) (bool, bool)
	walk = func(n *c05Member, out bool) (bool, bool) {
		out = out || n.newGroup
		if n.name == name {
			return out, true
		}
		for _, c := range n.children {
			if r, ok := walk(c, out); ok {
				return r, true
			}
		}
		return false, false
	}
	r, _ := walk(m, false)
	return r
}

// expiringContext is a context whose deadline expires when the harness says so: Done is closed and Err is
// context.DeadlineExceeded from then on (a deadline cannot be attached to a running context after the fact, and a
// scripted instant - "the tree is complete" - is not known in advance). Cancellation of the parent propagates as usual.
type expiringContext struct {
	context.Context
	mu   sync.Mutex
	done chan struct{}
	err  error
}

func newExpiringContext(parent context.Context) *expiringContext {
	e := &expiringContext{Context: parent, done: make(chan struct{})}
	go func() {
		select {
		case <-parent.Done():
			e.finish(parent.Err())
		case <-e.done:
		}
	}()
	return e
}

func (e *expiringContext) finish(err error) {
	e.mu.Lock()
	defer e.mu.Unlock()
	if e.err == nil {
		e.err = err
		close(e.done)
	}
}
func (e *expiringContext) expire()               { e.finish(context.DeadlineExceeded) }
func (e *expiringContext) Done() <-chan struct{} { return e.done }
func (e *expiringContext) Err() error {
	e.mu.Lock()
	defer e.mu.Unlock()
	return e.err
}

package sim

import (
	"context"
	"crypto/md5"  //nolint:gosec
	"crypto/sha1" //nolint:gosec
	"crypto/sha256"
	"encoding/hex"
	"fmt"
	"hash"
	"os"
	"path/filepath"
	"time"

	"github.com/OneOfOne/xxhash"
	"github.com/spaolacci/murmur3"
	"github.com/spf13/afero"
	"golang.org/x/crypto/blake2b"

	"github.com/ARM-software/golang-utils/utils/commonerrors"
	"github.com/ARM-software/golang-utils/utils/filesystem"
	"github.com/ARM-software/golang-utils/utils/hashing"
)

func init() {
	Register(&Prop{
		ID:        "C20",
		Run:       runC20,
		Enumerate: enumC20,
		Level:     "fault_enumeration",
		Rule: "one run = a history of 1..5 calculations on ONE hasher object (each over a scripted reader: length 0..2^20, scripted chunking incl. zero-length reads and data-with-EOF, success / reader error at byte k / context cancelled at read j) followed by file hashing of the same bytes on SimDisk, afero.MemMapFs and afero.OsFs; " +
			"enumerated part: for every algorithm, every content length 0..L (quick L=24, thorough L=64) and EVERY fault position k<=length, for both fault kinds and 3 chunkings: a faulted calculation followed by a clean one on the same hasher; " +
			"non-trivial = the history contains a failed or cancelled calculation before a successful one, or several successful ones; distinct = distinct (algorithm, history script) digest",
		Real:        []string{"utils/hashing hash.go (CalculateWithContext on a reused hasher)", "utils/safeio (context-aware copy into the hash)", "utils/filesystem filehash.go, FileHashWithContext", "third-party hash implementations (xxhash, murmur3, blake2b) and crypto/*"},
		Stub:        []string{"source streams: scripted readers (chunking, error at byte k, cancellation at read j)", "disk for the file part: SimDisk, afero.MemMapFs, afero.OsFs in a scratch directory"},
		Assumptions: []string{"reference digests are computed by calling the standard / reference packages directly on the whole content", "no clock or scheduler involved: the fault dimension is the stream behaviour and the history on one hasher"},
	})
}

var c20Algos = []string{hashing.HashMd5, hashing.HashSha1, hashing.HashSha256, hashing.HashBlake2256, hashing.HashXXHash, hashing.HashMurmur}

func refDigest(algo string, content []byte) string {
	var h hash.Hash
	switch algo {
	case hashing.HashMd5:
		h = md5.New() //nolint:gosec
	case hashing.HashSha1:
		h = sha1.New() //nolint:gosec
	case hashing.HashSha256:
		h = sha256.New()
	case hashing.HashBlake2256:
		h, _ = blake2b.New256(nil)
	case hashing.HashXXHash:
		h = xxhash.New64()
	case hashing.HashMurmur:
		h = murmur3.New64()
	}
	_, _ = h.Write(content)
	return hex.EncodeToString(h.Sum(nil))
}

func enumC20(tier string) [][]uint32 {
	maxLen := 24
	if tier == "thorough" {
		maxLen = 64
	}
	var out [][]uint32
	for algo := 0; algo < len(c20Algos); algo++ {
		for l := 0; l <= maxLen; l++ {
			for fk := 0; fk < 2; fk++ {
				for k := 0; k <= l; k++ {
					for chunk := 0; chunk < 3; chunk++ {
						// leading 1 selects the enumerated scenario
						out = append(out, []uint32{1, uint32(algo), uint32(l), uint32(fk), uint32(k), uint32(chunk)})
					}
				}
			}
		}
	}
	return out
}

type c20Calc struct {
	length  int
	seed    uint64
	chunks  []int
	outcome int // 0 ok, 1 error at byte k, 2 cancel at read j, 3 context already cancelled
	at      int
	eofData bool
	errData bool
	errVal  error
}

func (c c20Calc) String() string {
	return fmt.Sprintf("{len=%d chunks=%s outcome=%d@%d(%v) eofWithData=%v errWithData=%v}", c.length, describeChunks(c.chunks), c.outcome, c.at, c.errVal, c.eofData, c.errData)
}

func runC20(rc *RunCtx) {
	ch := rc.Ch
	res := rc.Res
	enumerated := ch.Intn("enum", 2) == 1
	algo := c20Algos[ch.Intn("algo", len(c20Algos))]
	var calcs []c20Calc
	if enumerated {
		l := ch.Intn("len", 65)
		fk := ch.Intn("faultkind", 2)
		k := ch.Intn("k", l+1)
		chunks := [][]int{nil, {1}, {3, 0, 5}}[ch.Intn("chunk", 3)]
		calcs = []c20Calc{
			{length: l, seed: 11, chunks: chunks, outcome: 1 + fk, at: k, errVal: scriptedErr(ch, "errkind")},
			{length: l/2 + 1, seed: 12, chunks: chunks, outcome: 0},
		}
	} else if ch.Intn("concurrent", 8) == 0 {
		runC20Concurrent(rc, algo)
		return
	} else {
		n := 1 + ch.Intn("ncalc", 5)
		for i := 0; i < n; i++ {
			c := c20Calc{length: lengthClass(ch, "len"), seed: uint64(1 + ch.Intn("seed", 1<<20)), chunks: chunkPattern(ch, "chunks")}
			c.outcome = ch.Pick("outcome", 5, 3, 3, 1)
			c.eofData = ch.Intn("eofdata", 3) == 0
			c.errData = ch.Intn("errdata", 2) == 0
			switch c.outcome {
			case 1:
				c.at = ch.Intn("errat", c.length+1)
				c.errVal = scriptedErr(ch, "errkind")
			case 2:
				c.at = ch.Intn("cancelat", 12)
			}
			calcs = append(calcs, c)
		}
	}
	res.Config = fmt.Sprintf("algo=%s history=%v", algo, calcs)
	res.Digest = hashStrings(res.Config)
	res.Steps = len(calcs)
	h, err := hashing.NewHashingAlgorithm(algo)
	if err != nil {
		res.Infra = "cannot create hasher: " + err.Error()
		return
	}
	failedBefore, okCount := false, 0
	var lastContent []byte
	for i, c := range calcs {
		content := genBytes(c.seed*7919+uint64(c.length), c.length)
		ctx, cancel := context.WithCancel(context.Background())
		r := &ScriptedReader{Data: content, Chunks: c.chunks, ErrAt: -1, CancelAtRead: -1, Ctx: ctx, Cancel: cancel, EOFWithData: c.eofData, ErrWithData: c.errData}
		switch c.outcome {
		case 1:
			r.ErrAt, r.ErrVal = c.at, c.errVal
			res.Fault("reader-error")
		case 2:
			r.CancelAtRead = c.at
			res.Fault("cancel-mid-calculation")
		case 3:
			cancel()
			res.Fault("cancelled-before")
		}
		got, cerr := h.CalculateWithContext(ctx, r)
		cancel()
		want := refDigest(algo, content)
		if cerr == nil {
			if got != want {
				prior := "fresh hasher"
				if i > 0 {
					prior = fmt.Sprintf("after %d earlier calculation(s), failed-or-cancelled before: %v", i, failedBefore)
				}
				kind := "clean"
				if failedBefore {
					kind = "after-failed-calculation"
				} else if i > 0 {
					kind = "after-successful-calculation"
				}
				if c.outcome != 0 && r.Delivered() < len(content) {
					kind = "nil-error-on-truncated-stream"
				}
				res.Violate("wrong-digest", fmt.Sprintf("wrong-digest|%s", kind),
					fmt.Sprintf("algo=%s calculation %d %v (%s): digest %s, reference %s", algo, i, c, prior, got, want))
			}
			okCount++
			if failedBefore || okCount > 1 {
				res.NonTrivial = true
			}
			lastContent = content
		} else {
			failedBefore = true
			// a faulted calculation must report an error kind, never a digest
			if got != "" {
				res.Violate("wrong-digest", "digest-with-error", fmt.Sprintf("algo=%s calculation %d %v: returned digest %q together with error %v", algo, i, c, got, cerr))
			}
			if c.outcome == 0 {
				res.Violate("wrong-digest", "spurious-error", fmt.Sprintf("algo=%s calculation %d %v: unexpected error %v", algo, i, c, cerr))
			}
			if (c.outcome == 2 || c.outcome == 3) && !commonerrors.Any(cerr, commonerrors.ErrCancelled, commonerrors.ErrTimeout) && r.Delivered() < len(content) {
				res.Probe("cancel-reported-as-other-kind")
			}
		}
	}
	// file hashing = hashing the bytes, on every backend
	if lastContent != nil && len(lastContent) > 0 {
		want := refDigest(algo, lastContent)
		// the last backend behaves like procfs: regular files whose Stat reports size 0 although they have content
		backends := map[string]afero.Fs{"SimDisk": NewSimDisk().View(1), "MemMapFs": afero.NewMemMapFs(), "size-0-reporting(procfs-like)": &zeroSizeFs{Fs: afero.NewMemMapFs()}}
		root := "/data"
		if scratch := os.Getenv("VERIF_SCRATCH"); scratch != "" {
			if d, err := os.MkdirTemp(scratch, "c20-"); err == nil {
				defer os.RemoveAll(d)
				backends["OsFs"] = afero.NewBasePathFs(afero.NewOsFs(), d)
			}
		}
		for name, b := range backends {
			vfs := filesystem.NewVirtualFileSystem(b, filesystem.Custom, filesystem.IdentityPathConverterFunc)
			p := filepath.Join(root, "f.bin")
			if err := vfs.MkDir(root); err != nil {
				res.Infra = fmt.Sprintf("%s: mkdir: %v", name, err)
				return
			}
			if err := vfs.WriteFile(p, lastContent, 0o644); err != nil {
				res.Infra = fmt.Sprintf("%s: write: %v", name, err)
				return
			}
			got, err := vfs.FileHashWithContext(context.Background(), algo, p)
			res.ProbeN("filehash-"+name, 1)
			if err != nil || got != want {
				res.Violate("wrong-digest", "file-hash|"+name, fmt.Sprintf("algo=%s backend=%s: FileHash of %d bytes = %q err=%v, reference %s", algo, name, len(lastContent), got, err, want))
			}
		}
	}
	if rc.KeepTrace {
		res.Trace = []string{res.Config}
	}
}

// zeroSizeFs reports size 0 for every regular file (as procfs does) while serving its full content.
type zeroSizeFs struct{ afero.Fs }

type zeroSizeInfo struct{ os.FileInfo }

func (i zeroSizeInfo) Size() int64 {
	if i.IsDir() {
		return i.FileInfo.Size()
	}
	return 0
}

type zeroSizeFile struct{ afero.File }

func (f zeroSizeFile) Stat() (os.FileInfo, error) {
	fi, err := f.File.Stat()
	if err != nil {
		return nil, err
	}
	return zeroSizeInfo{fi}, nil
}

func (z *zeroSizeFs) Stat(name string) (os.FileInfo, error) {
	fi, err := z.Fs.Stat(name)
	if err != nil {
		return nil, err
	}
	return zeroSizeInfo{fi}, nil
}
func (z *zeroSizeFs) Open(name string) (afero.File, error) {
	f, err := z.Fs.Open(name)
	if err != nil {
		return nil, err
	}
	return zeroSizeFile{f}, nil
}
func (z *zeroSizeFs) OpenFile(name string, flag int, perm os.FileMode) (afero.File, error) {
	f, err := z.Fs.OpenFile(name, flag, perm)
	if err != nil {
		return nil, err
	}
	return zeroSizeFile{f}, nil
}

// runC20Concurrent: several files hashed at the same time through ONE filesystem object, the reads interleaved by the
// seeded scheduler at backend-operation granularity: every call must return the digest of its own file.
func runC20Concurrent(rc *RunCtx, algo string) {
	ch, res := rc.Ch, rc.Res
	n := 2 + ch.Intn("nfiles", 3)
	contents := make([][]byte, n)
	for i := range contents {
		contents[i] = genBytes(uint64(1+ch.Intn("seed", 1<<20)), []int{0, 1, 5000, 40000, 70000, 200000}[ch.Intn("size", 6)])
	}
	res.Config = fmt.Sprintf("algo=%s concurrent file hashes through one filesystem object, sizes=%v", algo, func() (l []int) {
		for _, c := range contents {
			l = append(l, len(c))
		}
		return
	}())
	res.NonTrivial = true
	res.Fault("concurrent-file-hashes")
	got := make([]string, n)
	errs := make([]error, n)
	var sim *Sim
	dl := Bubble(rc.T, func() {
		sim = NewSim(ch)
		sim.MaxSteps = 20000
		sim.Deadline = time.Now().Add(30 * time.Second)
		disk := NewSimDisk()
		direct := disk.View(0)
		_ = direct.MkdirAll("/data", 0o755)
		for i, c := range contents {
			f, _ := direct.Create(fmt.Sprintf("/data/f%d.bin", i))
			_, _ = f.Write(c)
			_ = f.Close()
		}
		seam := NewSeam(disk.View(1), 1)
		sim.Attach(seam)
		vfs := filesystem.NewVirtualFileSystem(seam, filesystem.Custom, filesystem.IdentityPathConverterFunc)
		for i := 0; i < n; i++ {
			i := i
			sim.Go(fmt.Sprintf("hasher%d", i), func() {
				sim.Yield(1, fmt.Sprintf("start%d", i))
				got[i], errs[i] = vfs.FileHashWithContext(context.Background(), algo, fmt.Sprintf("/data/f%d.bin", i))
			})
		}
		sim.Run(nil)
	})
	if sim == nil {
		res.Infra = "bubble did not start: " + dl
		return
	}
	res.Digest = sim.Trace.Digest()
	res.Steps = sim.Steps
	if dl != "" || sim.Outcome != "" {
		res.Outcome = "budget-or-deadlock"
		return
	}
	for i := range contents {
		if want := refDigest(algo, contents[i]); errs[i] != nil || got[i] != want {
			res.Violate("wrong-digest", "file-hash|concurrent-calls-on-one-filesystem-object", fmt.Sprintf("%s: file %d (%d bytes): digest %q err=%v, reference %s", res.Config, i, len(contents[i]), got[i], errs[i], want))
		}
	}
	if rc.KeepTrace {
		res.Trace = append([]string{res.Config}, sim.Trace.Lines...)
	}
}

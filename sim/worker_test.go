//go:debug randautoseed=0
//go:debug randseednop=0

package sim

import (
	"encoding/json"
	"fmt"
	"os"
	"testing"

	"github.com/sasha-s/go-deadlock"
)

func init() {
	// go-deadlock's goroutine-id shim does not work with this toolchain and
	// would report false lock-order inversions; its detection is a debugging
	// aid of a third party, not behaviour of the code under test.
	deadlock.Opts.Disable = true
}

// TestWorker is the entry point used by the driver: VERIF_SPEC names a JSON
// WorkerSpec; the result is written to spec.Out.
func TestWorker(t *testing.T) {
	path := os.Getenv("VERIF_SPEC")
	if path == "" {
		t.Skip("no VERIF_SPEC")
	}
	b, err := os.ReadFile(path)
	if err != nil {
		t.Fatalf("spec: %v", err)
	}
	spec := &WorkerSpec{}
	if err := json.Unmarshal(b, spec); err != nil {
		t.Fatalf("spec: %v", err)
	}
	if spec.Mode == "replay" {
		rb, err := os.ReadFile(spec.ReplayFile)
		if err != nil {
			t.Fatalf("replay file: %v", err)
		}
		rf := &ReplayFile{}
		if err := json.Unmarshal(rb, rf); err != nil {
			t.Fatalf("replay file: %v", err)
		}
		res := Replay(t, rf)
		ob, _ := json.MarshalIndent(map[string]interface{}{"expected_signature": rf.Sig, "result": res, "reproduced": hasSig(res, rf.Sig)}, "", " ")
		if spec.Out != "" {
			_ = os.WriteFile(spec.Out, ob, 0o644)
		} else {
			fmt.Println(string(ob))
		}
		return
	}
	out := RunWorker(t, spec)
	ob, _ := json.Marshal(out)
	if err := os.WriteFile(spec.Out, ob, 0o644); err != nil {
		t.Fatalf("write out: %v", err)
	}
	if raceBuild && t.Failed() {
		// the race detector marks the test as failed when it has reported a race; the reports have been read from the
		// race log and turned into violations of their runs: the worker itself did its job
		os.Exit(0)
	}
}

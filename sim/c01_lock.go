package sim

import (
	"fmt"
	"os"
	"runtime"
	"time"
)

func init() {
	Register(&Prop{
		ID:    "C01",
		Run:   runC01,
		Level: "exploration",
		Rule: "one run = 2..4 lock contenders (own VFS + lock object each) doing 1..3 acquire/hold/release cycles over one SimDisk, every afero call a scheduling point chosen by the seeded scheduler; " +
			"non-trivial = at least one acquire attempt found the lock directory present (mkdir EEXIST) ; distinct = distinct digest of the full (time, client, op, path, result) trace",
		Real:        []string{"utils/filesystem lockfile.go (TryLock, Lock, LockWithTimeout, Unlock, ReleaseIfStale, IsStale, heartbeat goroutine)", "utils/filesystem files.go (Rm, Exists, Ls, IsDir, IsEmpty, WriteFile, Chtimes, StatTimes)", "utils/parallelisation (cancel store, RunActionWithTimeoutAndCancelStore)", "avast/retry-go"},
		Stub:        []string{"disk: SimDisk (in-memory POSIX tree, conformance-tested against afero.OsFs)", "time: testing/synctest fake clock", "goroutine scheduling at afero.Fs granularity: seeded scheduler", "client death: operations fail without effect + context cancelled"},
		Assumptions: []string{"built with go1.26.8 (testing/synctest) instead of the pinned go1.24.1", "go-deadlock detection disabled (false positives under go1.26.8)", "interleavings at afero.Fs-call granularity; mkdir/remove atomic as on a POSIX or NFS store"},
	})
}

type c01Config struct {
	Clients  int
	Override bool
	DeadPrev int // 0 none, 1 pre-existing directory of a dead holder, 2 a contender dies while holding
	PrevAge  time.Duration
	Stalls   bool
	Cycles   int
	// IOErrors: number of transient I/O errors (an operation returns EIO instead of its effect) injected at
	// drawn operations of drawn clients (0..2)
	IOErrors int
}

func (c c01Config) String() string {
	return fmt.Sprintf("clients=%d override=%v deadprev=%d prevage=%v stalls=%v cycles=%d transientIOErrors=%d", c.Clients, c.Override, c.DeadPrev, c.PrevAge, c.Stalls, c.Cycles, c.IOErrors)
}

func runC01(rc *RunCtx) {
	ch := rc.Ch
	cfg := c01Config{
		Clients:  ch.Range("clients", 2, 4),
		Override: ch.Intn("override", 2) == 1,
		DeadPrev: ch.Pick("deadprev", 5, 3, 2),
		Stalls:   ch.Pick("stalls", 4, 1) == 1,
		Cycles:   ch.Range("cycles", 1, 3),
		IOErrors: ch.Pick("ioerrors", 6, 2, 1),
	}
	if cfg.DeadPrev == 1 {
		cfg.PrevAge = []time.Duration{150 * time.Millisecond, 10 * time.Second, 10 * time.Millisecond, 99 * time.Millisecond}[ch.Intn("prevage", 4)]
	}
	rc.Res.Config = cfg.String()
	var w *lockWorld
	var sim *Sim
	dl := Bubble(rc.T, func() {
		sim = NewSim(ch)
		sim.Trace.Keep = rc.KeepTrace
		sim.MaxSteps = 8000
		sim.Deadline = time.Now().Add(20 * time.Second)
		if cfg.Stalls {
			sim.StallNum, sim.StallDen = 1, 50
			sim.Stalls = []time.Duration{30 * time.Millisecond, 120 * time.Millisecond, 260 * time.Millisecond}
		}
		w = newLockWorld(rc, sim, cfg.Clients, cfg.Override)
		w.stalls = cfg.Stalls
		if cfg.IOErrors > 0 {
			// transient I/O errors: the k-th operation released for a drawn client fails without effect
			// either the k-th operation of the client whatever it is, or - the acquisition hinges on it - its k-th mkdir
			type target struct {
				client, at int
				mkdir      bool
				dirStat    bool // the k-th stat of the lock directory itself (existence tests around a release)
			}
			var targets []target
			for i := 0; i < cfg.IOErrors; i++ {
				t := target{client: 1 + ch.Intn("ioclient", cfg.Clients), at: ch.Intn("ioat", 400)}
				switch ch.Intn("iomkdir", 3) {
				case 1:
					t.mkdir, t.at = true, ch.Intn("iomkdirat", 6)
				case 2:
					t.dirStat, t.at = true, ch.Intn("iodirstatat", 40)
				}
				targets = append(targets, t)
			}
			seen, seenMk, seenDirStat := map[int]int{}, map[int]int{}, map[int]int{}
			sim.Decide = func(op *Op) *Fault {
				idx := seen[op.Client]
				seen[op.Client]++
				mk, ds := -1, -1
				if op.Name == "mkdir" {
					mk = seenMk[op.Client]
					seenMk[op.Client]++
				}
				if op.Name == "stat" && normPath(op.Path) == w.lockDir {
					ds = seenDirStat[op.Client]
					seenDirStat[op.Client]++
				}
				for _, t := range targets {
					if t.client == op.Client && ((!t.mkdir && !t.dirStat && t.at == idx) || (t.mkdir && t.at == mk) || (t.dirStat && t.at == ds)) {
						rc.Res.Fault("transient-io-error")
						if t.dirStat {
							rc.Res.Fault("transient-io-error-on-lock-directory-stat")
						}
						if t.mkdir {
							rc.Res.Fault("transient-io-error-on-lock-mkdir")
						}
						return &Fault{Err: errTransientIO}
					}
				}
				return nil
			}
		}
		if cfg.DeadPrev == 1 {
			v := w.disk.View(99)
			_ = v.Mkdir(w.lockDir, 0o755)
			f, _ := v.Create(w.hbFile)
			_, _ = f.Write([]byte("alive @ before"))
			_ = f.Close()
			old := time.Now().Add(-cfg.PrevAge)
			_ = v.Chtimes(w.hbFile, old, old)
			_ = v.Chtimes(w.lockDir, old, old)
		}
		victimCycle := -1
		victim := -1
		if cfg.DeadPrev == 2 {
			victim = 1 + ch.Intn("victim", cfg.Clients)
			victimCycle = ch.Intn("victimcycle", cfg.Cycles)
		}
		for _, cl := range w.clients {
			cl := cl
			// per-client script drawn up front so that scheduling choices
			// and workload choices do not interleave in the sequence
			type step struct {
				kind    int
				timeout time.Duration
				hold    time.Duration
				onFail  int
				pause   time.Duration
			}
			script := make([]step, cfg.Cycles)
			for i := range script {
				script[i] = step{
					kind:    ch.Pick("acq", 3, 3, 2),
					timeout: []time.Duration{30 * time.Millisecond, 200 * time.Millisecond, 2 * time.Second}[ch.Intn("to", 3)],
					hold:    []time.Duration{0, time.Millisecond, 20 * time.Millisecond, 60 * time.Millisecond, 130 * time.Millisecond, 400 * time.Millisecond}[ch.Intn("hold", 6)],
					onFail:  ch.Pick("onfail", 3, 2, 2),
					pause:   []time.Duration{0, 5 * time.Millisecond, 40 * time.Millisecond}[ch.Intn("pause", 3)],
				}
			}
			sim.Go(fmt.Sprintf("client%d", cl.id), func() {
				for i, st := range script {
					if cl.dead || cl.ctx.Err() != nil {
						return
					}
					var err error
					how := ""
					switch st.kind {
					case 0:
						how = "TryLock"
						err = cl.lock.TryLock(cl.ctx)
					case 1:
						how = "Lock"
						err = cl.lock.Lock(cl.ctx)
					default:
						how = "LockWithTimeout"
						// off the grid of operation latencies and retry waits: a timeout that expires at the very instant
						// the retry loop wakes up would leave the order of the two to the Go runtime
						err = cl.lock.LockWithTimeout(cl.ctx, st.timeout+13*time.Microsecond+time.Duration(cl.id))
					}
					if cl.dead {
						return
					}
					res := classifyLockErr(err)
					sim.Trace.Note(fmt.Sprintf("api c%d %s -> %s", cl.id, how, res))
					if err == nil {
						w.acquired(cl.id, how, cfg.Override)
						if st.hold > 0 {
							time.Sleep(st.hold)
						}
						sim.Yield(cl.id, "hold-end")
						if cl.id == victim && i == victimCycle {
							rc.Res.Fault("holder-death")
							w.kill(cl)
							return
						}
						w.releasing(cl.id)
						uerr := cl.lock.Unlock(cl.ctx)
						w.released(cl.id)
						sim.Trace.Note(fmt.Sprintf("api c%d Unlock -> %s", cl.id, classifyLockErr(uerr)))
					} else {
						switch res {
						case "timeout":
							rc.Res.Probe("lockwithtimeout-expired")
						case "stale":
							rc.Res.Probe("acquire-reported-stale")
						}
						switch st.onFail {
						case 1:
							s := cl.lock.IsStale()
							if s {
								rc.Res.Probe("isstale-true")
							}
						case 2:
							_ = cl.lock.ReleaseIfStale(cl.ctx)
						}
					}
					if st.pause > 0 {
						time.Sleep(st.pause)
						sim.Yield(cl.id, "pause-end")
					}
				}
			})
		}
		sim.Run(w.cancelAll)
	})
	if sim == nil {
		rc.Res.Infra = "bubble did not start: " + dl
		return
	}
	if dl != "" {
		// every lock call promises to return; with all contexts cancelled and
		// the disk free-running a residual block is a harness matter here
		rc.Res.Outcome = "bubble-deadlock"
		if os.Getenv("VERIF_DEBUG_DL") != "" {
			buf := make([]byte, 1<<20)
			buf = buf[:runtime.Stack(buf, true)]
			fmt.Println("DEADLOCK:", dl, rc.Res.Config, string(buf))
		}
	}
	res := rc.Res
	res.Digest = sim.Trace.Digest()
	res.Steps = sim.Steps
	res.SimNanos = int64(sim.End)
	if sim.Outcome != "" {
		res.Outcome = sim.Outcome
	}
	res.NonTrivial = w.contended > 0
	res.FaultN("stall", sim.StallCnt)
	for _, p := range sim.Panics {
		res.Violate("panic", "panic|"+firstLine(p), p)
	}
	if !cfg.Stalls && cfg.DeadPrev == 0 {
		if bad, d := w.overlapInHistory(); bad && !hasKind(res, "double-hold") {
			res.Violate("double-hold", "double-hold|history-overlap", d)
		}
	}
	if rc.KeepTrace {
		res.Trace = sim.Trace.Lines
	}
}

func firstLine(s string) string {
	for i := 0; i < len(s); i++ {
		if s[i] == '\n' {
			return s[:i]
		}
	}
	return s
}

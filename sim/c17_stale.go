package sim

import (
	"fmt"
	"os"
	"syscall"
	"time"
)

func init() {
	Register(&Prop{
		ID:        "C17",
		Run:       runC17,
		Enumerate: enumC17,
		Level:     "fault_enumeration",
		Rule: "one run = one holder (TryLock, hold 1..300 heartbeat periods, Unlock) and 1..3 observers polling IsStale / ReleaseIfStale / TryLock over one SimDisk; " +
			"enumerated part: the holder dies after its k-th filesystem operation for every k of the acquire path and the first heartbeats (k=0..15) x 1..3 observers x stall-free; random part: live holders (with and without I/O stalls) and deaths in steady state; " +
			"non-trivial = at least one observer call evaluated the lock while it existed; distinct = distinct trace digest",
		Real:        []string{"utils/filesystem lockfile.go (heartbeat writer, IsStale, ReleaseIfStale, TryLock, Unlock)", "utils/filesystem files.go, filetimes.go", "utils/parallelisation", "avast/retry-go"},
		Stub:        []string{"disk: SimDisk; the 'OS-backed filesystem under I/O load' of the quantifier is represented by latency and stall injection on the holder's and observers' operations", "time: testing/synctest fake clock", "scheduling at afero.Fs granularity: seeded scheduler", "holder death: operations fail without effect after operation k + context cancelled"},
		Assumptions: []string{"built with go1.26.8 (testing/synctest) instead of the pinned go1.24.1", "go-deadlock detection disabled", "real OS mtimes cannot follow the fake clock, hence SimDisk instead of afero.OsFs"},
	})
}

var errTransientIO = &os.PathError{Op: "write", Path: "heartbeat", Err: syscall.EIO}

func enumC17(tier string) [][]uint32 {
	var out [][]uint32
	reps := 2
	if tier == "thorough" {
		reps = 20
	}
	for rep := 0; rep < reps; rep++ {
		for k := 0; k < 16; k++ {
			for nobs := 0; nobs < 3; nobs++ {
				out = append(out, []uint32{5, uint32(k), uint32(nobs)}) // 5 = raw value selecting mode 1 in Pick(5,3,3)
			}
		}
	}
	return out
}

func runC17(rc *RunCtx) {
	ch := rc.Ch
	mode := ch.Pick("mode", 5, 3, 3) // 0 live holder, 1 death at op k (acquire path), 2 death in steady state
	k := ch.Intn("k", 16)
	nObs := 1 + ch.Intn("nobs", 3)
	stalls := false
	if mode == 0 {
		stalls = ch.Pick("stalls", 3, 1) == 1
	}
	holdPeriods := []int{1, 2, 3, 10, 40, 120, 300}[ch.Pick("hold", 3, 3, 3, 3, 2, 1, 1)]
	// one transient I/O error on one of the live holder's operations (the heartbeat is
	// redundant - write then re-stamp - so a single failed operation must not make the lock look stale)
	transientAt := -1
	if mode == 0 && !stalls && ch.Pick("transient", 2, 1) == 1 {
		transientAt = 2 + ch.Intn("transientat", 60)
	}
	if mode == 2 {
		k = 16 + ch.Intn("ksteady", 400)
	}
	// a second user of the holder's lock OBJECT (an ILock shared inside one process): its attempts fail because the lock
	// is held, and they must leave the held lock's heartbeat alone
	secondUser := mode == 0 && !stalls && ch.Pick("seconduser", 2, 1) == 1
	var secondTimeout, secondDelay time.Duration
	if secondUser {
		secondTimeout = []time.Duration{10 * time.Millisecond, 60 * time.Millisecond, 130 * time.Millisecond}[ch.Intn("secondtimeout", 3)] + 13*time.Microsecond // off the latency grid
		secondDelay = time.Duration(1+ch.Intn("seconddelay", 120)) * time.Millisecond
		if holdPeriods < 12 {
			holdPeriods = 12
		}
	}
	// the live holder got its lock by taking over the stale lock of a dead predecessor (override flag)
	takeover := mode == 0 && ch.Pick("takeover", 3, 1) == 1
	rc.Res.Config = fmt.Sprintf("holderTookOverStaleLock=%v mode=%d k=%d observers=%d stalls=%v hold=%dperiods transientErrAtHolderOp=%d secondUserOfHolderObject=%v(timeout %v after %v)", takeover, mode, k, nObs, stalls, holdPeriods, transientAt, secondUser, secondTimeout, secondDelay)
	var w *lockWorld
	var sim *Sim
	res := rc.Res
	period := 50 * time.Millisecond
	evaluated := 0
	dl := Bubble(rc.T, func() {
		sim = NewSim(ch)
		sim.Trace.Keep = rc.KeepTrace
		sim.MaxSteps = 60000
		sim.Deadline = time.Now().Add(40 * time.Second)
		if stalls {
			sim.StallNum, sim.StallDen = 1, 60
			sim.Stalls = []time.Duration{30 * time.Millisecond, 120 * time.Millisecond, 260 * time.Millisecond}
		}
		w = newLockWorld(rc, sim, 0, false)
		w.stalls = stalls
		w.quiet = true
		holder := w.addClient(1, takeover)
		if takeover {
			v := w.disk.View(99)
			_ = v.Mkdir(w.lockDir, 0o755)
			f, _ := v.Create(w.hbFile)
			_, _ = f.Write([]byte("alive @ long ago"))
			_ = f.Close()
			old := time.Now().Add(-10 * time.Second)
			_ = v.Chtimes(w.hbFile, old, old)
			_ = v.Chtimes(w.lockDir, old, old)
			res.Fault("dead-predecessor-lock-taken-over")
		}
		started := make(chan struct{}) // closed once the holder's acquire attempt is over
		var observers []*lockClient
		for i := 0; i < nObs; i++ {
			// observers may spell the lock id with surrounding white space: same lock
			spelling := []string{w.lockID, w.lockID, " " + w.lockID, w.lockID + "\n"}[ch.Intn("obsidspelling", 4)]
			observers = append(observers, w.addClientWithID(2+i, ch.Intn("obsoverride", 2) == 1, spelling))
		}
		if transientAt >= 0 {
			seen := 0
			sim.Decide = func(op *Op) *Fault {
				if op.Client != 1 {
					return nil
				}
				seen++
				if seen-1 == transientAt {
					res.Fault("holder-transient-io-error")
					return &Fault{Err: errTransientIO}
				}
				return nil
			}
		}
		// death injection: after the holder's k-th operation effect
		var died time.Time
		holderOps := 0
		dead := false
		if mode != 0 {
			prev := sim.OnEffect
			sim.OnEffect = func(op *Op) {
				prev(op)
				if op.Client == 1 && !dead {
					holderOps++
					if holderOps >= k {
						dead = true
						died = time.Now()
						res.Fault("holder-death")
						if op.Name == "mkdir" && op.Err == nil {
							res.Probe("death-between-mkdir-and-first-heartbeat")
						}
						w.kill(holder)
					}
				}
			}
			if k == 0 {
				dead = true
				died = time.Now()
				res.Fault("holder-death")
				w.kill(holder)
			}
		}
		holding := false // holder's acquire returned and release not begun (harness view)
		holderDone := false
		sim.Go("holder", func() {
			defer func() { holderDone = true }()
			err := holder.lock.TryLock(holder.ctx)
			close(started)
			if holder.dead {
				return
			}
			if err != nil {
				if transientAt >= 0 {
					res.Probe("holder-acquire-failed-under-io-error") // nothing is held: the run is vacuous
					return
				}
				res.Infra = fmt.Sprintf("holder could not acquire a free lock: %v", err)
				return
			}
			w.acquired(1, "TryLock", takeover)
			holding = true
			time.Sleep(time.Duration(holdPeriods) * period)
			sim.Yield(1, "hold-end")
			if holder.dead {
				return
			}
			holding = false
			w.releasing(1)
			_ = holder.lock.Unlock(holder.ctx)
			w.released(1)
		})
		if secondUser {
			sim.Go("holder-object-second-user", func() {
				<-started
				time.Sleep(secondDelay)
				sim.Yield(1, "second-user-start")
				if !holding {
					return
				}
				res.Fault("failed-attempt-on-held-lock-object")
				err := holder.lock.LockWithTimeout(holder.ctx, secondTimeout)
				sim.Yield(1, "second-user-lockwithtimeout-done")
				if err == nil && holding {
					res.Violate("live-lock-judged-stale", "live-lock|second-acquisition-through-same-object", fmt.Sprintf("t=%v LockWithTimeout through the holder's own lock object succeeded while the lock is held", sim.Elapsed()))
					return
				}
				if !holding {
					return
				}
				err = holder.lock.TryLock(holder.ctx)
				sim.Yield(1, "second-user-trylock-done")
				if err == nil && holding {
					res.Violate("live-lock-judged-stale", "live-lock|second-acquisition-through-same-object", fmt.Sprintf("t=%v TryLock through the holder's own lock object succeeded while the lock is held", sim.Elapsed()))
				}
			})
		}
		liveCheck := func(obs *lockClient, what string, wasHolding bool) {
			// S1: live holder, stall-free configuration
			if !(mode == 0 && !stalls && wasHolding && holding) {
				return
			}
			res.Violate("live-lock-judged-stale", "live-lock|"+what,
				fmt.Sprintf("t=%v observer %d: %s while the holder (client 1) is alive, its context not cancelled and its release not begun (hold of %d periods)", sim.Elapsed(), obs.id, what, holdPeriods))
		}
		inStep := map[int]bool{} // observer id -> inside an API call of its step
		for _, obs := range observers {
			obs := obs
			type ostep struct {
				act   int
				pause time.Duration
			}
			n := 4 + holdPeriods*2
			if n > 120 {
				n = 120
			}
			steps := make([]ostep, n)
			for i := range steps {
				steps[i] = ostep{act: ch.Pick("obsact", 4, 3, 3), pause: []time.Duration{time.Millisecond, 7 * time.Millisecond, 23 * time.Millisecond, 49 * time.Millisecond, 101 * time.Millisecond}[ch.Intn("obspause", 5)]}
			}
			sim.Go(fmt.Sprintf("observer%d", obs.id), func() {
				<-started
				sim.Yield(obs.id, "obs-start")
				for _, st := range steps {
					if holderDone && mode == 0 {
						return
					}
					if mode != 0 && dead {
						break // recovery phase below
					}
					wasHolding := holding
					w.mu.Lock()
					w.statSeen[obs.id] = nil
					rm0 := w.removes[obs.id]
					w.mu.Unlock()
					inStep[obs.id] = true
					switch st.act {
					case 0:
						stale := obs.lock.IsStale()
						evaluated++
						if stale {
							res.Probe("isstale-true")
							checkS2(w, res, sim, obs.id, "IsStale")
							liveCheck(obs, "IsStale()=true", wasHolding)
						}
					case 1:
						_ = obs.lock.ReleaseIfStale(obs.ctx)
						evaluated++
						w.mu.Lock()
						removed := w.removes[obs.id] - rm0
						w.mu.Unlock()
						if removed > 0 {
							res.Probe("releaseifstale-removed")
							checkS2(w, res, sim, obs.id, "ReleaseIfStale")
							liveCheck(obs, "ReleaseIfStale removed lock entries", wasHolding)
						}
					default:
						err := obs.lock.TryLock(obs.ctx)
						evaluated++
						cls := classifyLockErr(err)
						if wasHolding {
							res.Probe("observer-trylock-while-holder-alive")
						}
						switch cls {
						case "ok":
							liveCheck(obs, "TryLock=success", wasHolding)
							w.acquired(obs.id, "TryLock", false)
							time.Sleep(2 * time.Millisecond)
							sim.Yield(obs.id, "obs-hold-end")
							w.releasing(obs.id)
							_ = obs.lock.Unlock(obs.ctx)
							w.released(obs.id)
						case "stale":
							checkS2(w, res, sim, obs.id, "TryLock=stale")
							liveCheck(obs, "TryLock=ErrStaleLock", wasHolding)
						}
					}
					inStep[obs.id] = false
					time.Sleep(st.pause)
					sim.Yield(obs.id, "obs-pause-end")
				}
				if mode == 0 || !dead || obs.id != 2 {
					return
				}
				// S3: recovery after the holder's death, driven by observer 2
				// the recovery clauses below are about one client recovering the dead holder's lock; while another observer is
				// still inside a call it began before the death (it may itself be releasing or re-acquiring the lock) a
				// refusal seen by this client is ordinary contention, not a failure to recover: let those calls finish first
				othersBusy := func() bool {
					for id, busy := range inStep {
						if id != obs.id && busy {
							return true
						}
					}
					return false
				}
				waited := false
				for i := 0; othersBusy(); i++ {
					if i == 0 {
						waited = true
						res.Probe("recovery-waited-for-another-observer")
					}
					if i > 400 {
						return
					}
					time.Sleep(5 * time.Millisecond)
					sim.Yield(obs.id, "recovery-wait-others")
				}
				// (a call of another observer that was under way may have taken the lock over and released it: the three
				// periods count from the later of the death and the end of those calls)
				from := died
				if waited {
					from = time.Now()
				}
				deadline := from.Add(3*period + 20*time.Millisecond)
				reported := false
				for {
					w.mu.Lock()
					w.statSeen[obs.id] = nil
					w.mu.Unlock()
					stale := obs.lock.IsStale()
					exists, _, _, _, _, _ := w.disk.Peek(w.lockDir)
					if stale {
						checkS2(w, res, sim, obs.id, "IsStale")
					}
					if stale || !exists {
						reported = true
						if !exists {
							res.Probe("dead-holder-left-no-directory")
						}
						break
					}
					if time.Now().After(deadline) {
						break
					}
					time.Sleep(5 * time.Millisecond)
					sim.Yield(obs.id, "recovery-poll")
				}
				if !reported {
					kind := "directory-with-heartbeat"
					if _, _, _, _, _, kids := w.disk.Peek(w.lockDir); kids == 0 {
						kind = "empty-directory"
					}
					res.Violate("dead-lock-not-reported-stale", "dead-lock-not-stale|"+kind,
						fmt.Sprintf("holder died at t=%v after its operation %d; at t=%v (more than three periods later) IsStale is still false and the lock directory exists (%s)", died.Sub(sim.Start), k, sim.Elapsed(), kind))
					return
				}
				rerr := obs.lock.ReleaseIfStale(obs.ctx)
				if rerr != nil {
					res.Violate("dead-lock-not-recovered", "dead-lock-recovery|ReleaseIfStale="+classifyLockErr(rerr),
						fmt.Sprintf("t=%v ReleaseIfStale on the dead holder's stale lock returned %v", sim.Elapsed(), rerr))
					return
				}
				aerr := obs.lock.TryLock(obs.ctx)
				cls := classifyLockErr(aerr)
				switch cls {
				case "ok":
					res.Probe("recovered")
					w.acquired(obs.id, "TryLock", false)
					// TryLock has just started the heartbeat goroutine: let it reach its first operation before the
					// release cancels it (otherwise the Go runtime decides whether that first heartbeat is attempted)
					sim.Yield(obs.id, "recovered")
					w.releasing(obs.id)
					_ = obs.lock.Unlock(obs.ctx)
					w.released(obs.id)
				case "locked":
					// acceptable only when another live observer got there first
					w.mu.Lock()
					other := w.curOwner >= 2 && w.curOwner != obs.id
					w.mu.Unlock()
					if !other {
						res.Violate("dead-lock-not-recovered", "dead-lock-recovery|TryLock=locked", fmt.Sprintf("t=%v after ReleaseIfStale succeeded a new TryLock still reports locked and nobody else holds", sim.Elapsed()))
					} else {
						res.Probe("recovered-by-other-observer")
					}
				default:
					// a racing observer may legitimately make it look stale/absent again; only a plain failure counts
					w.mu.Lock()
					other := w.curOwner >= 2 && w.curOwner != obs.id
					w.mu.Unlock()
					if !other {
						res.Violate("dead-lock-not-recovered", "dead-lock-recovery|TryLock="+cls, fmt.Sprintf("t=%v after ReleaseIfStale succeeded a new TryLock returned %v", sim.Elapsed(), aerr))
					}
				}
			})
		}
		sim.Run(w.cancelAll)
	})
	if sim == nil {
		res.Infra = "bubble did not start: " + dl
		return
	}
	if dl != "" {
		res.Outcome = "bubble-deadlock"
	}
	res.Digest = sim.Trace.Digest()
	res.Steps = sim.Steps
	res.SimNanos = int64(sim.End)
	if sim.Outcome != "" {
		res.Outcome = sim.Outcome
	}
	res.NonTrivial = evaluated > 0
	res.FaultN("stall", sim.StallCnt)
	for _, p := range sim.Panics {
		res.Violate("panic", "panic|"+firstLine(p), p)
	}
	if rc.KeepTrace {
		res.Trace = sim.Trace.Lines
	}
}

// checkS2: soundness of a positive staleness answer, phrased on what the seam
// handed out: the modification time that decided the answer must have been
// older than two periods at the instant the caller received it.
func checkS2(w *lockWorld, res *RunResult, sim *Sim, c int, via string) {
	w.mu.Lock()
	defer w.mu.Unlock()
	obs := w.statSeen[c]
	if len(obs) == 0 {
		return
	}
	// the deciding observation of an IsStale evaluation is its last stat in the
	// lock directory made from inside IsStale; judged[] holds exactly that
	j, ok := w.judged[c]
	if !ok {
		return
	}
	if j.age <= 2*w.period {
		res.Violate("stale-answer-unsound", "stale-unsound|"+via,
			fmt.Sprintf("t=%v client %d: %s judged the lock stale although the newest sign of life it was handed was only %v old (two periods = %v)", sim.Elapsed(), c, via, j.age, 2*w.period))
	}
}

package sim

import (
	"bytes"
	"context"
	"crypto/sha256"
	"encoding/hex"
	"fmt"
	"os"
	"path"
	"path/filepath"
	"sort"
	"strings"
	"syscall"

	"github.com/ARM-software/golang-utils/utils/commonerrors"
	"github.com/ARM-software/golang-utils/utils/filesystem"
)

func init() {
	Register(&Prop{
		ID:    "C06",
		Run:   runC06,
		Level: "exploration",
		Rule: "one run = a generated program of 1..40 filesystem-API calls over a small alphabet of colliding paths (trailing separators, source equal to / parent of / inside the destination), kept free of kind conflicts by consulting the reference model, executed call by call on three backends (SimDisk, afero.MemMapFs, afero.OsFs in a scratch directory) behind the fault layer and compared with a small reference model of the documented semantics (mkdir -p, cp -r with the documented deviation, mv, rm -rf, ls, touch): return values, error/no error (not-found kind for a missing source), full tree dump after every call; " +
			"the last call may be a 'wild' one (kind conflicts, overlapping source/destination) checked only against the universal clauses: terminates within an operation budget, handle balance 0, nothing outside its destination changes, a copy's source is unchanged; " +
			"fault part: the last call is re-executed with an I/O error returned by its k-th backend operation and with its context cancelled after its k-th operation (sampled k). non-trivial = at least 3 calls of which one mutates; distinct = distinct program digest",
		Real:        []string{"utils/filesystem files.go, filepath.go, filesystem.go, extendedfile.go (MkDir, Touch, WriteFile, ReadFile, Exists/IsFile/IsDir/IsEmpty/GetFileSize, Ls, LsRecursive, ListDirTree, SubDirectories, Copy, CopyToFile, CopyToDirectory, Move, Rm, CleanDir, FileHash)", "afero.MemMapFs and afero.OsFs as shipped backends"},
		Stub:        []string{"disk: SimDisk as third backend", "fault layer: operation counter, operation budget, fail-at-k, cancel-at-k, handle table", "reference model: map path -> dir | file(bytes)"},
		Assumptions: []string{"model clauses are restricted to what interfaces.go or the named POSIX command fixes; everything else is 'unspecified' and only the universal clauses apply", "this is model-based sequential testing hosted by the simulator's disk and fault layer: no clock or scheduler is involved for this property"},
	})
}

type mEntry struct {
	dir  bool
	data []byte
}

type fsModel map[string]*mEntry

const c06Root = "/r"

func (m fsModel) clone() fsModel {
	out := fsModel{}
	for k, v := range m {
		out[k] = &mEntry{dir: v.dir, data: v.data}
	}
	return out
}
func (m fsModel) get(p string) *mEntry { return m[p] }
func (m fsModel) isDir(p string) bool  { e := m[p]; return e != nil && e.dir }
func (m fsModel) isFile(p string) bool { e := m[p]; return e != nil && !e.dir }
func (m fsModel) children(p string) []string {
	var out []string
	for k := range m {
		if filepath.Dir(k) == p && k != p {
			out = append(out, filepath.Base(k))
		}
	}
	sort.Strings(out)
	return out
}
func isSub(parent, p string) bool { return p == parent || strings.HasPrefix(p, parent+"/") }
func (m fsModel) subtree(p string) []string {
	var out []string
	for k := range m {
		if isSub(p, k) {
			out = append(out, k)
		}
	}
	sort.Strings(out)
	return out
}
func (m fsModel) removeTree(p string) {
	for _, k := range m.subtree(p) {
		delete(m, k)
	}
}

// mkdirP returns false when a file is in the way (kind conflict).
func (m fsModel) mkdirP(p string) bool {
	if !isSub(c06Root, p) {
		return false
	}
	var chain []string
	for q := p; q != c06Root && q != "/" && q != "."; q = filepath.Dir(q) {
		chain = append(chain, q)
	}
	for i := len(chain) - 1; i >= 0; i-- {
		e := m[chain[i]]
		if e == nil {
			m[chain[i]] = &mEntry{dir: true}
		} else if !e.dir {
			return false
		}
	}
	return true
}
func (m fsModel) dump() map[string]string {
	out := map[string]string{}
	for k, e := range m {
		if k == c06Root {
			continue
		}
		rel := strings.TrimPrefix(k, c06Root+"/")
		if e.dir {
			out[rel] = "d"
		} else {
			h := sha256.Sum256(e.data)
			out[rel] = fmt.Sprintf("f:%d:%s", len(e.data), hex.EncodeToString(h[:6]))
		}
	}
	return out
}

// copyTree copies src subtree onto target in the model; false on a kind conflict.
func (m fsModel) copyTree(src, target string) bool {
	for _, k := range m.subtree(src) {
		rel := strings.TrimPrefix(k, src)
		t := target + rel
		se := m[k]
		if te := m[t]; te != nil && te.dir != se.dir {
			return false
		}
	}
	add := map[string]*mEntry{}
	for _, k := range m.subtree(src) {
		rel := strings.TrimPrefix(k, src)
		add[target+rel] = &mEntry{dir: m[k].dir, data: m[k].data}
	}
	for k, v := range add {
		m[k] = v
	}
	return true
}

const (
	opMkDir = iota
	opWriteFile
	opTouch
	opReadFile
	opExists
	opIsFile
	opIsDir
	opIsEmpty
	opGetFileSize
	opLs
	opLsRecursive
	opListDirTree
	opSubDirectories
	opCopy
	opCopyToFile
	opCopyToDirectory
	opMove
	opRm
	opCleanDir
	opFileHash
	opFindAll
	opGlob
	opConvertPaths
	opCount
)

var c06OpNames = []string{"MkDir", "WriteFile", "Touch", "ReadFile", "Exists", "IsFile", "IsDir", "IsEmpty", "GetFileSize", "Ls", "LsRecursive", "ListDirTree", "SubDirectories", "Copy", "CopyToFile", "CopyToDirectory", "Move", "Rm", "CleanDir", "FileHash", "FindAll", "Glob", "ConvertToRelativePath+ConvertToAbsolutePath"}

type c06Call struct {
	op   int
	p1   string // as passed (may carry a trailing separator)
	p2   string
	data []byte
	flag bool
	aux  string // FindAll: extension; Glob: pattern suffix appended to p1
}

func (c c06Call) String() string {
	switch c.op {
	case opFindAll:
		return fmt.Sprintf("%s(%q, %q)", c06OpNames[c.op], c.p1, c.aux)
	case opGlob:
		return fmt.Sprintf("%s(%q)", c06OpNames[c.op], trimSep(c.p1)+c.aux)
	case opConvertPaths:
		return fmt.Sprintf("%s(root=%q, %q)", c06OpNames[c.op], c.p1, c.p2)
	case opWriteFile:
		return fmt.Sprintf("%s(%q, %d bytes)", c06OpNames[c.op], c.p1, len(c.data))
	case opCopy, opCopyToFile, opCopyToDirectory, opMove:
		return fmt.Sprintf("%s(%q, %q)", c06OpNames[c.op], c.p1, c.p2)
	case opLsRecursive:
		return fmt.Sprintf("%s(%q, includeDirs=%v)", c06OpNames[c.op], c.p1, c.flag)
	}
	return fmt.Sprintf("%s(%q)", c06OpNames[c.op], c.p1)
}

type c06Expect struct {
	defined   bool
	wantErr   bool
	notFound  bool        // the error must be of the not-found kind
	value     interface{} // bool, int64, []byte, string, []string (compared as sets)
	filesOnly bool        // LsRecursive: compare the file members only
	optional  []string    // listing members that may or may not be present
	allowed   []string    // path prefixes that may change
	srcKeep   []string    // subtrees that must stay unchanged
	mutates   bool
	// missingParent: the call creates an entry whose parent directory does not exist. POSIX and the
	// OS backend refuse; afero.MemMapFs creates the missing directories implicitly (known divergence).
	missingParent bool
}

func trimSep(p string) string {
	if len(p) > 1 {
		return strings.TrimRight(p, "/")
	}
	return p
}
func endsSep(p string) bool { return strings.HasSuffix(p, "/") }

// model computes the expectation for a call and applies its effect to m when defined.
func (m fsModel) model(c c06Call) c06Expect {
	p := trimSep(c.p1)
	q := trimSep(c.p2)
	undefined := c06Expect{}
	switch c.op {
	case opMkDir:
		ex := c06Expect{allowed: []string{p}, mutates: true}
		t := m.clone()
		if !t.mkdirP(p) {
			return ex
		}
		m.mkdirP(p)
		ex.defined = true
		return ex
	case opWriteFile:
		ex := c06Expect{allowed: []string{p}, mutates: true}
		if endsSep(c.p1) || len(c.data) == 0 {
			return ex
		}
		par := filepath.Dir(p)
		if !m.clone().mkdirP(par) {
			return ex // a file among the ancestors: kind conflict
		}
		switch {
		case m.get(par) == nil:
			ex.defined, ex.wantErr, ex.missingParent = true, true, true
		case !m.isDir(par) || m.isDir(p):
			return ex
		default:
			m[p] = &mEntry{data: c.data}
			ex.defined = true
		}
		return ex
	case opTouch:
		ex := c06Expect{allowed: []string{p}, mutates: true}
		if m.get(p) != nil {
			ex.defined = true
			return ex
		}
		if endsSep(c.p1) {
			t := m.clone()
			if !t.mkdirP(p) {
				return ex
			}
			m.mkdirP(p)
			ex.defined = true
			return ex
		}
		par := filepath.Dir(p)
		if !m.clone().mkdirP(par) {
			return ex
		}
		switch {
		case m.get(par) == nil:
			ex.defined, ex.wantErr, ex.missingParent = true, true, true
		case !m.isDir(par):
			return ex
		default:
			m[p] = &mEntry{}
			ex.defined = true
		}
		return ex
	case opReadFile:
		e := m.get(p)
		switch {
		case e == nil:
			return c06Expect{defined: true, wantErr: true}
		case e.dir || len(e.data) == 0 || endsSep(c.p1):
			return undefined
		}
		return c06Expect{defined: true, value: e.data}
	case opExists:
		if endsSep(c.p1) && m.isFile(p) {
			return undefined
		}
		return c06Expect{defined: true, value: m.get(p) != nil}
	case opIsFile:
		if endsSep(c.p1) && m.isFile(p) {
			return undefined
		}
		return c06Expect{defined: true, value: m.isFile(p)}
	case opIsDir:
		if endsSep(c.p1) && m.isFile(p) {
			return undefined
		}
		if m.get(p) == nil {
			return c06Expect{defined: true, wantErr: true}
		}
		return c06Expect{defined: true, value: m.isDir(p)}
	case opIsEmpty:
		e := m.get(p)
		if endsSep(c.p1) && m.isFile(p) {
			return undefined
		}
		switch {
		case e == nil:
			return c06Expect{defined: true, value: true}
		case e.dir:
			return c06Expect{defined: true, value: len(m.children(p)) == 0}
		}
		return c06Expect{defined: true, value: len(e.data) == 0}
	case opGetFileSize:
		e := m.get(p)
		switch {
		case e == nil:
			return c06Expect{defined: true, wantErr: true}
		case e.dir || endsSep(c.p1):
			return undefined
		}
		return c06Expect{defined: true, value: int64(len(e.data))}
	case opLs:
		if !m.isDir(p) {
			return c06Expect{defined: true, wantErr: true}
		}
		return c06Expect{defined: true, value: m.children(p)}
	case opLsRecursive:
		e := m.get(p)
		switch {
		case e == nil:
			return c06Expect{defined: true, wantErr: true}
		case !e.dir:
			return undefined
		}
		var out []string
		for _, k := range m.subtree(p) {
			if k == p {
				continue
			}
			if !m[k].dir {
				out = append(out, k)
			}
		}
		return c06Expect{defined: true, value: out, filesOnly: true}
	case opListDirTree:
		if !m.isDir(p) {
			return c06Expect{defined: true, wantErr: true}
		}
		var out []string
		for _, k := range m.subtree(p) {
			if k != p {
				out = append(out, k)
			}
		}
		return c06Expect{defined: true, value: out}
	case opSubDirectories:
		e := m.get(p)
		switch {
		case e == nil:
			return c06Expect{defined: true, wantErr: true}
		case !e.dir:
			return undefined
		}
		out := []string{}
		for _, ch := range m.children(p) {
			if m.isDir(p+"/"+ch) && !strings.HasPrefix(ch, ".") {
				out = append(out, ch)
			}
		}
		return c06Expect{defined: true, value: out}
	case opCopy, opCopyToFile, opCopyToDirectory:
		ex := c06Expect{allowed: []string{q}, srcKeep: []string{p}, mutates: true}
		se := m.get(p)
		if endsSep(c.p1) && se != nil && !se.dir {
			return ex
		}
		if p == q {
			return ex // source and destination are the same entry: cp refuses, the documentation is silent
		}
		switch c.op {
		case opCopyToFile:
			if se == nil || se.dir {
				ex.defined, ex.wantErr = true, true
				return ex
			}
			if de := m.get(q); de != nil && de.dir {
				ex.defined, ex.wantErr = true, true
				return ex
			} else if de == nil && (endsSep(c.p2) || c.p2 == "") {
				ex.defined, ex.wantErr = true, true
				return ex
			}
		case opCopyToDirectory:
			if isSub(p, q) {
				return ex // destination inside the source (creating it would create the source): wild
			}
			t := m.clone()
			if !t.mkdirP(q) {
				return ex
			}
			if se == nil {
				m.mkdirP(q)
				ex.defined, ex.wantErr, ex.notFound = true, true, true
				return ex
			}
		}
		if se == nil {
			ex.defined, ex.wantErr, ex.notFound = true, true, true
			return ex
		}
		if p == q {
			return ex // same path: cp refuses, the documentation is silent
		}
		t := m.clone()
		if c.op == opCopyToDirectory {
			t.mkdirP(q)
		}
		de := t.get(q)
		var target string
		switch {
		case !se.dir && de != nil && !de.dir:
			target = q
		case !se.dir && de != nil && de.dir:
			target = q + "/" + filepath.Base(p)
		case !se.dir && de == nil && endsSep(c.p2):
			if !t.mkdirP(q) {
				return ex
			}
			target = q + "/" + filepath.Base(p)
		case !se.dir && de == nil:
			if !t.mkdirP(filepath.Dir(q)) {
				return ex
			}
			target = q
		case se.dir && de == nil:
			if !t.mkdirP(filepath.Dir(q)) {
				return ex
			}
			target = q
		case se.dir && de.dir:
			target = q + "/" + filepath.Base(p)
		default:
			return ex // directory onto a file
		}
		if target == p || isSub(p, target) || isSub(target, p) {
			return ex // overlapping source and destination: wild
		}
		if !se.dir {
			if te := t.get(target); te != nil && te.dir {
				return ex
			}
		}
		if !t.copyTree(p, target) {
			return ex
		}
		for k := range m {
			delete(m, k)
		}
		for k, v := range t {
			m[k] = v
		}
		ex.defined = true
		return ex
	case opMove:
		ex := c06Expect{allowed: []string{q, p}, mutates: true}
		se := m.get(p)
		if endsSep(c.p1) && se != nil && !se.dir {
			return ex
		}
		if p == q {
			return ex // mv refuses ('are the same file'), the implementation treats it as a no-op
		}
		if se == nil {
			ex.defined, ex.wantErr, ex.notFound = true, true, true
			return ex
		}
		if isSub(p, q) || isSub(q, p) {
			return ex
		}
		de := m.get(q)
		t := m.clone()
		switch {
		case de == nil && !endsSep(c.p2):
			if !t.mkdirP(filepath.Dir(q)) {
				return ex
			}
		case de != nil && !de.dir && !se.dir && !endsSep(c.p2):
			// file over file: rename replaces
		default:
			return ex // existing destination / trailing separator: mv semantics vs rename, unspecified here
		}
		t.removeTree(q)
		if !t.copyTree(p, q) {
			return ex
		}
		t.removeTree(p)
		for k := range m {
			delete(m, k)
		}
		for k, v := range t {
			m[k] = v
		}
		ex.defined = true
		return ex
	case opRm:
		ex := c06Expect{allowed: []string{p}, mutates: true}
		if p == c06Root || (endsSep(c.p1) && m.isFile(p)) {
			return ex
		}
		m.removeTree(p)
		ex.defined = true
		return ex
	case opCleanDir:
		ex := c06Expect{allowed: []string{p}, mutates: true}
		e := m.get(p)
		switch {
		case e == nil:
			ex.defined = true
		case !e.dir:
			return ex
		default:
			for _, k := range m.subtree(p) {
				if k != p {
					delete(m, k)
				}
			}
			ex.defined = true
		}
		return ex
	case opFileHash:
		e := m.get(p)
		switch {
		case e == nil:
			return c06Expect{defined: true, wantErr: true}
		case e.dir:
			return c06Expect{defined: true, wantErr: true}
		case endsSep(c.p1):
			return undefined
		}
		h := sha256.Sum256(e.data)
		return c06Expect{defined: true, value: hex.EncodeToString(h[:])}
	case opFindAll:
		// every entry below the directory whose name ends in ".<ext>" (a missing directory gives an empty list)
		if e := m.get(p); e != nil && !e.dir {
			return undefined
		}
		out := []string{}
		for _, k := range m.subtree(p) {
			if k != p && strings.HasSuffix(filepath.Base(k), "."+c.aux) {
				out = append(out, k)
			}
		}
		return c06Expect{defined: true, value: out}
	case opGlob:
		if e := m.get(p); e != nil && !e.dir {
			return undefined
		}
		pat := strings.Split(strings.TrimPrefix(p+c.aux, "/"), "/")
		out := []string{}
		var optional []string
		for k := range m {
			if globSegs(pat, strings.Split(strings.TrimPrefix(k, "/"), "/")) {
				if k == p {
					optional = append(optional, k) // whether "dir/**" names dir itself is not fixed by the documentation
					continue
				}
				out = append(out, k)
			}
		}
		return c06Expect{defined: true, value: out, optional: optional}
	case opConvertPaths:
		// relative to the root and back again: the same (cleaned) path, for a path below the root
		if !isSub(p, q) {
			return undefined
		}
		return c06Expect{defined: true, value: filepath.Clean(q)}
	}
	return undefined
}

// globSegs matches path segments against pattern segments: * and ? inside a segment (path.Match), ** for any number of
// segments, including none.
func globSegs(pat, segs []string) bool {
	if len(pat) == 0 {
		return len(segs) == 0
	}
	if pat[0] == "**" {
		for i := 0; i <= len(segs); i++ {
			if globSegs(pat[1:], segs[i:]) {
				return true
			}
		}
		return false
	}
	if len(segs) == 0 {
		return false
	}
	if ok, _ := path.Match(pat[0], segs[0]); !ok {
		return false
	}
	return globSegs(pat[1:], segs[1:])
}

type c06World struct {
	name    string
	seam    *Seam
	vfs     filesystem.FS
	cleanup func()
	back    interface{}
	budget  int
	opsCall int
	over    bool
	exdev   bool // renames fail with EXDEV
	// renameOntoAncestor: the last call asked the backend to rename an entry onto its own ancestor
	renameOntoAncestor string
	failAt             int // fail the k-th operation of the current call with EIO (-1 never)
	cancelAt           int
	cancel             context.CancelFunc
}

func newC06World(b fsBackend) *c06World {
	back, cleanup := b.New()
	_ = back.MkdirAll(c06Root, 0o755)
	w := &c06World{name: b.Name, cleanup: cleanup, budget: 20000, failAt: -1, cancelAt: -1}
	w.seam = NewSeam(back, 1)
	w.seam.Before = func(op *Op) *Fault {
		idx := w.opsCall
		w.opsCall++
		if w.opsCall > w.budget {
			w.over = true
			return &Fault{Err: &os.PathError{Op: op.Name, Path: op.Path, Err: syscall.ENOSPC}}
		}
		if op.Name == "rename" && filepath.Clean(op.Path) != filepath.Clean(op.Path2) && isSub(filepath.Clean(op.Path), filepath.Clean(op.Path2)) {
			// rename(2) of a directory into its own sub-tree is EINVAL on every kernel; afero.MemMapFs instead
			// crashes the process (nil dereference + fatal RUnlock), which would take the whole worker down
			return &Fault{Err: &os.LinkError{Op: "rename", Old: op.Path, New: op.Path2, Err: syscall.EINVAL}}
		}
		if op.Name == "rename" && filepath.Clean(op.Path) != filepath.Clean(op.Path2) && isSub(filepath.Clean(op.Path2), filepath.Clean(op.Path)) {
			// rename(2) of an entry onto one of its own ancestors fails (ENOTEMPTY: the ancestor holds the entry); on some
			// histories afero.MemMapFs instead kills the process (nil dereference, then a fatal RUnlock). The library
			// must not issue it: intercepted, answered like a kernel would, and reported.
			w.renameOntoAncestor = fmt.Sprintf("rename(%q, %q)", op.Path, op.Path2)
			return &Fault{Err: &os.LinkError{Op: "rename", Old: op.Path, New: op.Path2, Err: syscall.ENOTEMPTY}}
		}
		if w.exdev && op.Name == "rename" {
			return &Fault{Err: &os.LinkError{Op: "rename", Old: op.Path, New: op.Path2, Err: syscall.EXDEV}}
		}
		if idx == w.failAt {
			return &Fault{Err: &os.PathError{Op: op.Name, Path: op.Path, Err: syscall.EIO}}
		}
		return nil
	}
	w.seam.After = func(op *Op) {
		if w.cancel != nil && w.opsCall-1 == w.cancelAt {
			w.cancel()
		}
	}
	w.vfs = newVFS(w.seam)
	w.back = back
	return w
}

type c06Result struct {
	value interface{}
	err   error
}

func (w *c06World) exec(ctx context.Context, c c06Call) c06Result {
	w.opsCall, w.over = 0, false
	fs := w.vfs
	switch c.op {
	case opMkDir:
		return c06Result{err: fs.MkDir(c.p1)}
	case opWriteFile:
		return c06Result{err: fs.WriteFileWithContext(ctx, c.p1, c.data, 0o644)}
	case opTouch:
		return c06Result{err: fs.Touch(c.p1)}
	case opReadFile:
		v, err := fs.ReadFileWithContext(ctx, c.p1)
		return c06Result{value: v, err: err}
	case opExists:
		return c06Result{value: fs.Exists(c.p1)}
	case opIsFile:
		v, err := fs.IsFile(c.p1)
		return c06Result{value: v, err: err}
	case opIsDir:
		v, err := fs.IsDir(c.p1)
		return c06Result{value: v, err: err}
	case opIsEmpty:
		v, err := fs.IsEmpty(c.p1)
		return c06Result{value: v, err: err}
	case opGetFileSize:
		v, err := fs.GetFileSize(c.p1)
		return c06Result{value: v, err: err}
	case opLs:
		v, err := fs.Ls(c.p1)
		return c06Result{value: v, err: err}
	case opLsRecursive:
		v, err := fs.LsRecursive(ctx, c.p1, c.flag)
		return c06Result{value: v, err: err}
	case opListDirTree:
		var l []string
		err := fs.ListDirTreeWithContext(ctx, c.p1, &l)
		return c06Result{value: l, err: err}
	case opSubDirectories:
		v, err := fs.SubDirectoriesWithContext(ctx, c.p1)
		return c06Result{value: v, err: err}
	case opCopy:
		return c06Result{err: fs.CopyWithContext(ctx, c.p1, c.p2)}
	case opCopyToFile:
		return c06Result{err: fs.CopyToFileWithContext(ctx, c.p1, c.p2)}
	case opCopyToDirectory:
		return c06Result{err: fs.CopyToDirectoryWithContext(ctx, c.p1, c.p2)}
	case opMove:
		return c06Result{err: fs.MoveWithContext(ctx, c.p1, c.p2)}
	case opRm:
		return c06Result{err: fs.RemoveWithContext(ctx, c.p1)}
	case opCleanDir:
		return c06Result{err: fs.CleanDirWithContext(ctx, c.p1)}
	case opFileHash:
		v, err := fs.FileHashWithContext(ctx, "SHA256", c.p1)
		return c06Result{value: v, err: err}
	case opFindAll:
		v, err := fs.FindAll(c.p1, c.aux)
		return c06Result{value: v, err: err}
	case opGlob:
		v, err := fs.Glob(trimSep(c.p1) + c.aux)
		return c06Result{value: v, err: err}
	case opConvertPaths:
		rel, err := fs.ConvertToRelativePath(c.p1, c.p2)
		if err != nil {
			return c06Result{err: err}
		}
		abs, err := fs.ConvertToAbsolutePath(c.p1, rel...)
		if err != nil || len(abs) != 1 {
			return c06Result{err: err, value: ""}
		}
		return c06Result{value: abs[0]}
	}
	return c06Result{}
}

func toSet(v interface{}) map[string]bool {
	out := map[string]bool{}
	if l, ok := v.([]string); ok {
		for _, s := range l {
			out[filepath.Clean(s)] = true
		}
	}
	return out
}

func valueMatches(ex c06Expect, got interface{}, dirs fsModel) (bool, string) {
	switch want := ex.value.(type) {
	case nil:
		return true, ""
	case bool:
		g, _ := got.(bool)
		return g == want, fmt.Sprintf("returned %v, model says %v", got, want)
	case int64:
		g, _ := got.(int64)
		return g == want, fmt.Sprintf("returned %v, model says %v", got, want)
	case string:
		g, _ := got.(string)
		return g == want, fmt.Sprintf("returned %q, model says %q", got, want)
	case []byte:
		g, _ := got.([]byte)
		return bytes.Equal(g, want), fmt.Sprintf("returned %d bytes, model says %d bytes", len(g), len(want))
	case []string:
		gs := toSet(got)
		ws := toSet(want)
		if ex.filesOnly {
			// compare the file members only (whether directories and the root are listed is not fixed by the documentation)
			for k := range gs {
				if dirs.isDir(k) || dirs.get(k) == nil && !ws[k] && k == "" {
					delete(gs, k)
				}
			}
			for k := range gs {
				if dirs.isDir(k) {
					delete(gs, k)
				}
			}
		}
		for _, k := range ex.optional {
			delete(gs, filepath.Clean(k))
		}
		var missing, extra []string
		for k := range ws {
			if !gs[k] {
				missing = append(missing, k)
			}
		}
		for k := range gs {
			if !ws[k] {
				extra = append(extra, k)
			}
		}
		sort.Strings(missing)
		sort.Strings(extra)
		return len(missing) == 0 && len(extra) == 0, fmt.Sprintf("listing differs from the model: missing %v, unexpected %v", missing, extra)
	}
	return true, ""
}

var c06Paths = []string{"/r/a", "/r/b", "/r/c", "/r/a/x", "/r/a/y", "/r/b/x", "/r/a/x/z", "/r/c/k", "/r/a/.h", "/r/b/x/w", "/r/a/..s", "/r/b/..data"}

// moveLost lists the regular files of the source of a move whose content is, after the call, neither where it was nor
// anywhere under the destination: whatever a move returns, it relocates content, it never destroys it.
func moveLost(pre, post map[string]string, src, dst string) []string {
	rel := func(p string) string {
		if p == c06Root {
			return ""
		}
		return strings.TrimPrefix(p, c06Root+"/")
	}
	relSrc, relDst := rel(src), rel(dst)
	under := func(p, base string) bool { return base == "" || p == base || strings.HasPrefix(p, base+"/") }
	have := map[string]bool{}
	for p, v := range post {
		if under(p, relDst) && strings.HasPrefix(v, "f:") {
			have[v] = true
		}
	}
	var lost []string
	for p, v := range pre {
		if !under(p, relSrc) || !strings.HasPrefix(v, "f:") {
			continue
		}
		if post[p] == v || have[v] {
			continue
		}
		lost = append(lost, fmt.Sprintf("%s (%s)", p, v))
	}
	sort.Strings(lost)
	return lost
}

func c06Clean(p string) string { return filepath.Clean(trimSep(p)) }

func c06DrawCall(ch *Chooser, wild bool) c06Call {
	c := c06Call{}
	c.op = ch.Pick("op", 4, 5, 2, 2, 1, 1, 1, 1, 1, 2, 2, 2, 1, 6, 2, 3, 5, 3, 2, 1, 1, 2, 1)
	pick := func(kind string) string {
		p := c06Paths[ch.Intn(kind, len(c06Paths))]
		sepW := 6
		if wild {
			sepW = 2
		}
		if ch.Pick(kind+"sep", sepW, 1) == 1 {
			p += "/"
		}
		return p
	}
	c.p1 = pick("p1")
	switch c.op {
	case opCopy, opCopyToFile, opCopyToDirectory, opMove:
		c.p2 = pick("p2")
		if wild && ch.Intn("rel", 3) == 0 {
			// force an overlap: destination = source, its parent, or a child of it
			base := trimSep(c.p1)
			c.p2 = []string{base, filepath.Dir(base), base + "/sub", base + "/..snapshot", base + "/..x/c"}[ch.Intn("relkind", 5)]
		}
	case opWriteFile:
		c.data = genBytes(uint64(1+ch.Intn("dataseed", 1000)), []int{1, 10, 700, 40000}[ch.Intn("datalen", 4)])
		if wild && ch.Intn("emptydata", 3) == 0 {
			c.data = []byte{} // empty content: the result is unspecified, the universal clauses still apply
		}
	case opLsRecursive:
		c.flag = ch.Intn("incdirs", 2) == 1
	case opFindAll:
		c.aux = []string{"h", "s", "data", "txt"}[ch.Intn("ext", 4)]
	case opGlob:
		c.aux = []string{"/*", "/**", "/**/x", "/?", "/*/*", "/**/.*", "/x*"}[ch.Intn("globpat", 7)]
	case opConvertPaths:
		c.p2 = pick("p2")
	}
	return c
}

func runC06(rc *RunCtx) {
	ch := rc.Ch
	res := rc.Res
	n := 1 + ch.Intn("ncalls", 40)
	wildLast := ch.Intn("wildlast", 2) == 1
	backends := []fsBackend{simDiskBackend(), memMapBackend()}
	if ob, ok := osBackend(); ok {
		backends = append(backends, ob)
	}
	var worlds []*c06World
	for _, b := range backends {
		worlds = append(worlds, newC06World(b))
	}
	defer func() {
		for _, w := range worlds {
			w.cleanup()
		}
	}()
	model := fsModel{c06Root: &mEntry{dir: true}}
	var prog []c06Call
	var progStr []string
	mutating := 0
	viol := func(sig, msg string) {
		res.Violate("fs-semantics", "fsapi|"+sig, fmt.Sprintf("after %v: %s", progStr, msg))
	}
	ctx := context.Background()
	dumpOf := func(w *c06World) map[string]string { return dumpFs(w.seam.Inner, c06Root) }
	// the dump lists what is below the root: when the root itself is the destination of a move and ended up a file
	// (afero.MemMapFs lets a rename replace a directory) the moved content sits at a place the dump does not show
	rootReplaced := func(w *c06World, dst string) bool {
		if dst != c06Root {
			return false
		}
		fi, err := w.seam.Inner.Stat(c06Root)
		return err == nil && !fi.IsDir()
	}
	for i := 0; i < n && len(res.Violations) == 0; i++ {
		last := i == n-1
		var c c06Call
		var ex c06Expect
		before := model.clone()
		ok := false
		for try := 0; try < 6; try++ {
			c = c06DrawCall(ch, last && wildLast)
			trial := model.clone()
			ex = trial.model(c)
			if ex.missingParent && ch.Intn("keepmissingparent", 8) != 0 {
				continue
			}
			if ex.defined || (last && wildLast) {
				if ex.defined {
					model = trial
				}
				ok = true
				break
			}
		}
		if !ok {
			continue
		}
		prog = append(prog, c)
		progStr = append(progStr, c.String())

		if ex.mutates {
			mutating++
		}
		opName := c06OpNames[c.op]
		wild := !ex.defined
		if wild {
			res.Probe("wild-call")
		}
		var firstDump map[string]string
		var firstErr error
		for wi, w := range worlds {
			pre := dumpOf(w)
			r := w.exec(ctx, c)
			post := dumpOf(w)
			// universal clauses
			if w.over {
				viol(opName+"|does-not-terminate", fmt.Sprintf("%s on %s issued more than %d backend operations (cut off by the harness); returned %v", c, w.name, w.budget, r.err))
				break
			}
			if w.renameOntoAncestor != "" {
				viol(opName+"|backend-asked-to-rename-an-entry-onto-its-own-ancestor", fmt.Sprintf("%s on %s issued %s: it cannot succeed on a POSIX backend and makes the in-memory backend (afero.MemMapFs) crash the whole process on some histories", c, w.name, w.renameOntoAncestor))
				w.renameOntoAncestor = ""
			}
			if bal := w.seam.Balance(); bal != 0 {
				viol(opName+"|handle-leak", fmt.Sprintf("%s on %s left %d handles open: %v (returned %v)", c, w.name, bal, w.seam.OpenPaths(), r.err))
			}
			changed := diffDumps(pre, post, 1000)
			for _, d := range changed {
				path := c06Root + "/" + strings.SplitN(d, ":", 2)[0]
				okp := false
				for _, a := range ex.allowed {
					if a != "" && (isSub(a, path) || isSub(path, a) && post[strings.TrimPrefix(path, c06Root+"/")] == "d" && pre[strings.TrimPrefix(path, c06Root+"/")] == "") {
						okp = true
					}
				}
				if !okp {
					rel := strings.TrimPrefix(path, c06Root+"/")
					ancestor := false
					for _, a := range ex.allowed {
						if a != "" && isSub(path, a) {
							ancestor = true
						}
					}
					if w.name == "MemMapFs" && ancestor && strings.HasPrefix(pre[rel], "f:") && post[rel] == "d" {
						viol("in-memory-backend|file-ancestor-replaced-by-directory", fmt.Sprintf("%s on %s: the file %s, an ancestor of the destination, was silently replaced by a directory (its content is lost); returned %v", c, w.name, rel, r.err))
					} else {
						viol(opName+"|changed-outside-destination", fmt.Sprintf("%s on %s changed %s (allowed to change: %v)", c, w.name, d, ex.allowed))
					}
					break
				}
			}
			memAncestor := false
			for _, v := range res.Violations {
				if strings.Contains(v.Sig, "file-ancestor-replaced-by-directory") {
					memAncestor = true
				}
			}
			if (c.op == opCopy || c.op == opCopyToFile || c.op == opCopyToDirectory) && !(memAncestor && w.name == "MemMapFs") {
				for _, s := range ex.srcKeep {
					rel := strings.TrimPrefix(s, c06Root+"/")
					for _, d := range changed {
						dp := strings.SplitN(d, ":", 2)[0]
						if (dp == rel || strings.HasPrefix(dp, rel+"/")) && pre[dp] != "" {
							viol(opName+"|copy-changed-its-source", fmt.Sprintf("%s on %s changed its source: %s (returned %v)", c, w.name, d, r.err))
						}
					}
				}
			}
			if c.op == opMove && !(memAncestor && w.name == "MemMapFs") {
				if lost := moveLost(pre, post, c06Clean(c.p1), c06Clean(c.p2)); len(lost) > 0 && !rootReplaced(w, c06Clean(c.p2)) {
					viol(opName+"|move-destroyed-its-source", fmt.Sprintf("%s on %s returned %v: content that was under the source is afterwards neither at its place nor under the destination: %v", c, w.name, r.err, lost))
				}
			}
			if wild {
				continue
			}
			// model clauses
			if ex.missingParent && w.name == "MemMapFs" {
				if r.err == nil {
					viol("in-memory-backend|missing-parent-created-implicitly", fmt.Sprintf("%s: the parent directory does not exist; the OS-backed (and the simulated POSIX) backend refuse with an error, the in-memory backend creates the missing directories and succeeds", c))
				}
				continue
			}
			if ex.wantErr != (r.err != nil) {
				viol(opName+"|error-vs-model", fmt.Sprintf("%s on %s returned err=%v, the model expects error=%v", c, w.name, r.err, ex.wantErr))
			} else if ex.notFound && !commonerrors.Any(r.err, commonerrors.ErrNotFound) {
				viol(opName+"|missing-source-not-notfound-kind", fmt.Sprintf("%s on %s: %v", c, w.name, r.err))
			}
			if r.err == nil {
				if okv, why := valueMatches(ex, r.value, before); !okv {
					viol(opName+"|value-vs-model", fmt.Sprintf("%s on %s: %s", c, w.name, why))
				}
			}
			if d := diffDumps(model.dump(), post, 6); len(d) > 0 {
				viol(opName+"|tree-vs-model", fmt.Sprintf("%s on %s: tree differs from the model (model -> actual): %v", c, w.name, d))
			}
			if wi == 0 {
				firstDump, firstErr = post, r.err
			} else if d := diffDumps(firstDump, post, 6); len(d) > 0 || (firstErr == nil) != (r.err == nil) {
				viol(opName+"|backends-disagree", fmt.Sprintf("%s: %s vs %s: errors %v / %v, tree differences %v", c, worlds[0].name, w.name, firstErr, r.err, d))
			}
		}
		if wild {
			break // the worlds may have diverged from the model: a wild call ends the program
		}
	}
	res.Config = fmt.Sprintf("program(%d calls, wildLast=%v)=%v", len(prog), wildLast, progStr)
	res.Digest = hashStrings(res.Config)
	res.Steps = len(prog)
	res.NonTrivial = len(prog) >= 3 && mutating >= 1
	// fault part: re-execute the prefix on a fresh SimDisk world and fault the last call
	if len(prog) > 0 && len(res.Violations) == 0 {
		lastCall := prog[len(prog)-1]
		probe := newC06World(simDiskBackend())
		for _, c := range prog[:len(prog)-1] {
			probe.exec(ctx, c)
		}
		probe.exec(ctx, lastCall)
		nops := probe.opsCall
		probe.cleanup()
		if nops > 0 {
			for rep := 0; rep < 6; rep++ {
				k := ch.Intn("faultk", nops)
				mode := ch.Intn("faultmode", 2)
				w := newC06World(simDiskBackend())
				for _, c := range prog[:len(prog)-1] {
					w.exec(ctx, c)
				}
				w.exdev = lastCall.op == opMove && ch.Intn("exdev", 2) == 1 // cross-device rename: Move falls back to copy + remove
				pre := dumpOf(w)
				cctx, cancel := context.WithCancel(ctx)
				if mode == 0 {
					w.failAt = k
					res.Fault("io-error-at-op-k")
				} else {
					w.cancelAt, w.cancel = k, cancel
					res.Fault("cancel-at-op-k")
				}
				r := w.exec(cctx, lastCall)
				cancel()
				post := dumpOf(w)
				opName := c06OpNames[lastCall.op]
				what := map[int]string{0: "I/O error", 1: "cancellation"}[mode]
				if w.over {
					viol(opName+"|does-not-terminate|under-fault", fmt.Sprintf("%s with an %s at its operation %d did not terminate within %d operations", lastCall, what, k, w.budget))
				}
				if bal := w.seam.Balance(); bal != 0 {
					viol(opName+"|handle-leak|under-fault", fmt.Sprintf("%s with an %s at its operation %d of %d left %d handles open: %v (returned %v)", lastCall, what, k, nops, bal, w.seam.OpenPaths(), r.err))
				}
				exl := model.clone().model(lastCall) // only for the allowed set
				for _, d := range diffDumps(pre, post, 1000) {
					path := c06Root + "/" + strings.SplitN(d, ":", 2)[0]
					okp := false
					for _, a := range exl.allowed {
						if a != "" && (isSub(a, path) || isSub(path, a)) {
							okp = true
						}
					}
					if !okp {
						viol(opName+"|changed-outside-destination|under-fault", fmt.Sprintf("%s with an %s at its operation %d changed %s", lastCall, what, k, d))
						break
					}
				}
				if lastCall.op == opMove {
					if lost := moveLost(pre, post, c06Clean(lastCall.p1), c06Clean(lastCall.p2)); len(lost) > 0 && !rootReplaced(w, c06Clean(lastCall.p2)) {
						viol(opName+"|move-destroyed-its-source|under-fault", fmt.Sprintf("%s with an %s at its operation %d of %d (cross-device rename: %v) returned %v: content that was under the source is afterwards neither at its place nor under the destination: %v", lastCall, what, k, nops, w.exdev, r.err, lost))
					}
				}
				w.cleanup()
			}
		}
	}
	if rc.KeepTrace {
		res.Trace = progStr
	}
}

package sim

import (
	"context"
	"errors"
	"fmt"
	"reflect"

	"github.com/ARM-software/golang-utils/utils/commonerrors"
	"sort"
	"sync"
	"time"

	"github.com/ARM-software/golang-utils/utils/parallelisation"
)

func init() {
	Register(&Prop{
		ID:        "C12",
		Run:       runC12,
		Enumerate: enumC12,
		Level:     "exploration",
		Rule: "one run = one call of a runner (RunActionWithTimeout / ...AndContext / ...AndCancelStore / RunActionWithParallelCheck / Parallelise) inside a synctest bubble with a scripted action " +
			"(work units in simulated time; polls, blocks on or ignores its stop signal; returns nil or an error) whose completion instant is placed relative to the deadline by the seed; " +
			"enumerated part: completion offsets in [-2ms,+2ms] around the deadline (quick: 4us steps, thorough: 1us steps, plus +-1ns..+-100ns) x runner x action behaviour; " +
			"non-trivial = the action was still running at, or finished within 2ms of, the deadline / cancellation, or Parallelise saw an error; distinct = distinct (configuration, result, instants) digest",
		Real:        []string{"utils/parallelisation parallelisation.go (RunActionWithTimeout, RunActionWithTimeoutAndContext, RunActionWithTimeoutAndCancelStore, RunActionWithParallelCheck, Parallelise), cancel_functions.go"},
		Stub:        []string{"time: testing/synctest fake clock (completion instants are exact; equal instants are excluded by 1ns because Go's select picks at random among ready cases)", "the action: harness state machine", "the 1..16 busy goroutines of the quantifier: not reproduced, load only moves completion instants which are swept directly"},
		Assumptions: []string{"built with go1.26.8 (testing/synctest)", "go-deadlock detection disabled", "the concurrent Register/Cancel part of the property is checked by the race-engine rounds (C12 cancel store in engine 'race')"},
	})
}

const (
	c12RunnerStop = iota
	c12RunnerCtx
	c12RunnerStore
	c12RunnerCheck
	c12RunnerParallelise
	c12Runners
)

const (
	actFinish     = iota // works, never looks at the signal
	actPoll              // polls the signal between units, returns promptly when seen
	actPollIgnore        // polls, but keeps working for a while after seeing it
	actBlock             // blocks on the signal after its work (returns when signalled)
	actPollLast          // polls between units but not after the last one (returns without consuming the signal)
	actKinds
)

func enumC12(tier string) [][]uint32 {
	var out [][]uint32
	step := 4
	if tier == "thorough" {
		step = 1
	}
	var offs []int
	for o := -2000; o <= 2000; o += step {
		offs = append(offs, o)
	}
	for _, runner := range []uint32{c12RunnerStop, c12RunnerCtx, c12RunnerStore} {
		for kind := uint32(0); kind < actKinds; kind++ {
			for _, o := range offs {
				// offset class 0 = microsecond grid; value o+2000
				out = append(out, []uint32{runner, kind, 0, uint32(o + 2000)})
			}
			for _, ns := range []uint32{1, 2, 3, 10, 100} {
				// raw Pick(6,1,1,2) values 6 and 7 select the +ns and -ns classes
				out = append(out, []uint32{runner, kind, 6, ns - 1}, []uint32{runner, kind, 7, ns - 1})
			}
		}
	}
	return out
}

type c12Obs struct {
	mu        sync.Mutex
	start     time.Time
	invoked   int
	actReturn time.Duration // instant the action returned (-1: not yet)
	sawSignal time.Duration // instant the action first observed its signal (-1: never)
	returned  bool
}

func (o *c12Obs) since() time.Duration { return time.Since(o.start) }

func runC12(rc *RunCtx) {
	ch := rc.Ch
	runner := ch.Intn("runner", c12Runners)
	res := rc.Res
	switch runner {
	case c12RunnerParallelise:
		runC12Parallelise(rc)
		return
	case c12RunnerCheck:
		runC12ParallelCheck(rc)
		return
	}
	kind := ch.Intn("kind", actKinds)
	// completion offset relative to the deadline
	var offset time.Duration
	switch ch.Pick("offclass", 6, 1, 1, 2) {
	case 0:
		offset = time.Duration(ch.Intn("offus", 4001)-2000) * time.Microsecond
	case 1:
		offset = time.Duration(1 + ch.Intn("offns", 100))
	case 2:
		offset = -time.Duration(1 + ch.Intn("offns", 100))
	default:
		offset = time.Duration(ch.Intn("offfar", 200)-100) * time.Millisecond
	}
	if offset == 0 {
		offset = 1 // exact ties are decided by Go's randomised select: excluded
	}
	timeout := []time.Duration{3 * time.Millisecond, 10 * time.Millisecond, 250 * time.Millisecond}[ch.Intn("timeout", 3)]
	units := 1 + ch.Intn("units", 4)
	retKind := ch.Pick("reterr", 4, 3, 1, 1, 1) // 0 nil, 1 private error, 2 the library's timeout kind, 3 wrapped timeout kind, 4 cancelled kind
	retErr := retKind != 0
	parent := 0 // 0 alive, 1 cancelled before, 2 cancelled during
	var parentAt time.Duration
	if runner != c12RunnerStop {
		if runner == c12RunnerStore {
			parent = ch.Pick("parent", 6, 1, 2, 3) // 3: the cancel store is cancelled by somebody else while the action runs
		} else {
			parent = ch.Pick("parent", 6, 1, 2)
		}
		if parent >= 2 {
			parentAt = time.Duration(1+ch.Intn("parentat", 2000)) * timeout / 1000 // up to 2x timeout
			if parentAt == timeout {
				parentAt++
			}
		}
	}
	ignoreFor := time.Duration(1+ch.Intn("ignore", 5)) * time.Millisecond
	total := timeout + offset
	if total <= 0 {
		total = 1
	}
	// split total work into units; no unit boundary may coincide with the deadline or the parent's cancellation
	bounds := make([]time.Duration, units)
	for i := 0; i < units; i++ {
		bounds[i] = total * time.Duration(i+1) / time.Duration(units)
		for bounds[i] == timeout || (parent >= 2 && bounds[i] == parentAt) {
			bounds[i]++
		}
	}
	total = bounds[units-1]
	res.Config = fmt.Sprintf("runner=%d kind=%d timeout=%v work=%v(offset %v) units=%d reterr=%d parent=%d@%v ignore=%v", runner, kind, timeout, total, total-timeout, units, retKind, parent, parentAt, ignoreFor)
	var errAction error
	switch retKind {
	case 2:
		errAction = commonerrors.ErrTimeout // e.g. a nested, shorter time-out propagating its result
	case 3:
		errAction = fmt.Errorf("nested operation: %w", commonerrors.ErrTimeout)
	case 4:
		errAction = commonerrors.ErrCancelled
	default:
		errAction = errors.New("action failed")
	}
	obs := &c12Obs{actReturn: -1, sawSignal: -1}
	var runErr error
	var runReturn time.Duration = -1
	var actionCtx context.Context
	stopBuffered := -1
	actionCtxAlive := false
	dl := Bubble(rc.T, func() {
		obs.start = time.Now()
		// generic scripted action over an abstract "signal"
		script := func(signalled func() bool, wait func(max time.Duration) bool) error {
			obs.mu.Lock()
			obs.invoked++
			obs.mu.Unlock()
			seen := func() {
				obs.mu.Lock()
				if obs.sawSignal < 0 {
					obs.sawSignal = obs.since()
				}
				obs.mu.Unlock()
			}
			done := func(err error) error {
				obs.mu.Lock()
				obs.actReturn = obs.since()
				obs.mu.Unlock()
				return err
			}
			result := error(nil)
			if retErr {
				result = errAction
			}
			prev := time.Duration(0)
			for i, b := range bounds {
				time.Sleep(b - prev)
				prev = b
				last := i == len(bounds)-1
				switch kind {
				case actPoll:
					if signalled() {
						seen()
						return done(result)
					}
				case actPollLast:
					if !last && signalled() {
						seen()
						return done(result)
					}
				case actPollIgnore:
					if signalled() {
						seen()
						time.Sleep(ignoreFor)
						return done(result)
					}
				}
			}
			if kind == actBlock {
				if wait(10 * time.Second) {
					seen()
				}
			}
			return done(result)
		}
		switch runner {
		case c12RunnerStop:
			var stopCh chan bool
			runErr = parallelisation.RunActionWithTimeout(func(stop chan bool) error {
				stopCh = stop
				got := false
				return script(func() bool {
					if got {
						return true
					}
					select {
					case <-stop:
						got = true
					default:
					}
					return got
				}, func(max time.Duration) bool {
					if got {
						return true
					}
					select {
					case <-stop:
						got = true
					case <-time.After(max):
					}
					return got
				})
			}, timeout)
			runReturn = obs.since()
			if stopCh != nil {
				stopBuffered = len(stopCh)
			}
		default:
			pctx, pcancel := context.WithCancel(context.Background())
			defer pcancel()
			switch parent {
			case 1:
				pcancel()
			case 2:
				t := time.AfterFunc(parentAt, pcancel)
				defer t.Stop()
			}
			action := func(ctx context.Context) error {
				actionCtx = ctx
				return script(func() bool { return ctx.Err() != nil }, func(max time.Duration) bool {
					select {
					case <-ctx.Done():
						return true
					case <-time.After(max):
						return false
					}
				})
			}
			if runner == c12RunnerCtx {
				runErr = parallelisation.RunActionWithTimeoutAndContext(pctx, timeout, action)
			} else {
				store := parallelisation.NewCancelFunctionsStore()
				if parent == 3 {
					t := time.AfterFunc(parentAt, store.Cancel)
					defer t.Stop()
				}
				runErr = parallelisation.RunActionWithTimeoutAndCancelStore(pctx, timeout, store, action)
				defer store.Cancel()
			}
			runReturn = obs.since()
			if actionCtx != nil {
				actionCtxAlive = actionCtx.Err() == nil
			}
		}
		obs.mu.Lock()
		obs.returned = true
		obs.mu.Unlock()
	})
	kindOf := classifyLockErr(runErr) // ok | timeout | cancelled | other
	isAction := runErr != nil && errors.Is(runErr, errAction)
	cls := kindOf
	if isAction {
		cls = "action-error(" + kindOf + ")"
	}
	res.Steps = 1
	res.SimNanos = int64(runReturn)
	sig := func(what string) string {
		return fmt.Sprintf("%s|runner=%s|action=%s", what, c12RunnerName(runner), c12KindName(kind))
	}
	// (c) never blocks
	if dl != "" || runReturn < 0 {
		res.Violate("runner-blocked", sig("blocked-for-ever"), fmt.Sprintf("%s: the runner never returned (%s); action returned at %v, saw its signal at %v", res.Config, dl, obs.actReturn, obs.sawSignal))
		res.Digest = hashStrings(res.Config, "deadlock")
		res.NonTrivial = true
		return
	}
	first := timeout // instant of the first event that ends the wait for the action's own result
	firstKind := "timeout"
	if parent >= 2 && parentAt < timeout {
		first, firstKind = parentAt, "cancelled" // parent context or cancel store cancelled first
	}
	switch {
	case parent == 1:
		if kindOf != "cancelled" || obs.invoked != 0 || runReturn != 0 {
			res.Violate("wrong-result", sig("parent-cancelled-before"), fmt.Sprintf("%s: parent context cancelled before the call: got %v at %v, action invoked %d times", res.Config, runErr, runReturn, obs.invoked))
		}
	case total < first && kind != actBlock:
		// (a) finished before the deadline: own result, at that very instant
		okResult := (!retErr && runErr == nil) || (retErr && isAction)
		if !okResult || runReturn != total {
			res.Violate("wrong-result", sig("finished-before-deadline"), fmt.Sprintf("%s: action finished at %v, before the deadline, with result %v: runner returned %q (%v) at %v", res.Config, total, map[bool]error{true: errAction, false: nil}[retErr], cls, runErr, runReturn))
		}
	default:
		// (b) still running at the deadline / cancellation
		if kindOf != firstKind {
			res.Violate("wrong-result", sig("running-at-deadline"), fmt.Sprintf("%s: action still running at %v (%s): runner returned %q (%v), want kind %q", res.Config, first, firstKind, cls, runErr, firstKind))
		}
		if obs.actReturn < 0 || runReturn != obs.actReturn {
			res.Violate("runner-blocked", sig("return-not-at-action-return"), fmt.Sprintf("%s: action returned at %v but the runner returned at %v", res.Config, obs.actReturn, runReturn))
		}
		// the signal was available to the action no later than the deadline
		switch kind {
		case actPoll, actPollIgnore, actBlock:
			if obs.sawSignal < 0 && obs.actReturn > first {
				res.Violate("no-signal", sig("signal-not-observed"), fmt.Sprintf("%s: the action looked for its stop signal after %v and never saw one", res.Config, first))
			}
		}
		if runner == c12RunnerStop && obs.sawSignal < 0 && stopBuffered == 0 {
			res.Violate("no-signal", sig("stop-not-sent"), fmt.Sprintf("%s: timeout path taken but no value was ever sent on the stop channel", res.Config))
		}
	}
	// (d) context handed to the action is done on every exit path
	if runner == c12RunnerCtx && parent != 1 && actionCtx != nil && actionCtxAlive {
		res.Violate("no-signal", sig("action-context-left-alive"), fmt.Sprintf("%s: RunActionWithTimeoutAndContext returned (%v) but the context handed to the action is not done", res.Config, runErr))
	}
	if parent != 1 && obs.invoked != 1 {
		res.Violate("wrong-result", sig("invocations"), fmt.Sprintf("%s: action invoked %d times", res.Config, obs.invoked))
	}
	near := total - first
	if near < 0 {
		near = -near
	}
	res.NonTrivial = total >= first || near <= 2*time.Millisecond
	res.Digest = hashStrings(res.Config, cls, fmt.Sprint(runReturn, obs.actReturn, obs.sawSignal))
	if rc.KeepTrace {
		res.Trace = []string{res.Config, fmt.Sprintf("runner returned %q at %v; action returned at %v, saw signal at %v", cls, runReturn, obs.actReturn, obs.sawSignal)}
	}
}

func c12RunnerName(r int) string {
	return []string{"RunActionWithTimeout", "RunActionWithTimeoutAndContext", "RunActionWithTimeoutAndCancelStore", "RunActionWithParallelCheck", "Parallelise"}[r]
}
func c12KindName(k int) string {
	return []string{"finish", "poll", "poll-then-ignore", "block-on-signal", "poll-not-after-last-unit"}[k]
}

func hashStrings(parts ...string) uint64 {
	t := NewTrace()
	for _, p := range parts {
		t.Add(p)
	}
	return t.Digest()
}

func runC12ParallelCheck(rc *RunCtx) {
	ch := rc.Ch
	res := rc.Res
	period := []time.Duration{time.Millisecond, 7 * time.Millisecond}[ch.Intn("period", 2)]
	failAt := ch.Intn("failat", 6) // check number (1-based) that returns false; 0 = never
	work := time.Duration(1+ch.Intn("work", 40000)) * time.Microsecond
	reacts := ch.Intn("reacts", 2) == 1
	retErr := ch.Intn("reterr", 2) == 1
	if work%period == 0 {
		work++ // the end of the work never ties with a check instant (the Go runtime would decide the order)
	}
	res.Config = fmt.Sprintf("runner=ParallelCheck period=%v failAtCheck=%d work=%v reacts=%v reterr=%v", period, failAt, work, reacts, retErr)
	errAction := errors.New("action failed")
	var runErr error
	var runReturn, actReturn time.Duration = -1, -1
	checks := 0
	dl := Bubble(rc.T, func() {
		start := time.Now()
		runErr = parallelisation.RunActionWithParallelCheck(context.Background(), func(ctx context.Context) error {
			defer func() { actReturn = time.Since(start) }()
			if reacts {
				select {
				case <-ctx.Done():
				case <-time.After(work):
				}
			} else {
				time.Sleep(work)
			}
			if retErr {
				return errAction
			}
			return nil
		}, func(ctx context.Context) bool {
			checks++
			return failAt == 0 || checks < failAt
		}, period)
		runReturn = time.Since(start)
	})
	res.Steps = 1
	res.SimNanos = int64(runReturn)
	cls := classifyLockErr(runErr)
	if errors.Is(runErr, errAction) {
		cls = "action-error"
	}
	if dl != "" || runReturn < 0 {
		res.Violate("runner-blocked", "blocked-for-ever|runner=RunActionWithParallelCheck", fmt.Sprintf("%s: %s", res.Config, dl))
		res.Digest = hashStrings(res.Config, "deadlock")
		res.NonTrivial = true
		return
	}
	failInstant := time.Duration(failAt-1) * period
	want := "ok"
	if retErr {
		want = "action-error"
	}
	wantReturn := work
	if failAt > 0 && failInstant < work {
		want = "cancelled"
		if reacts {
			wantReturn = failInstant
		}
		res.NonTrivial = true
	}
	if cls != want || runReturn != wantReturn || actReturn != runReturn {
		res.Violate("wrong-result", "parallel-check|"+want, fmt.Sprintf("%s: got %q (%v) at %v (action returned at %v), want %q at %v", res.Config, cls, runErr, runReturn, actReturn, want, wantReturn))
	}
	res.Digest = hashStrings(res.Config, cls, fmt.Sprint(runReturn, actReturn))
	if rc.KeepTrace {
		res.Trace = []string{res.Config, fmt.Sprintf("returned %q at %v after %d checks", cls, runReturn, checks)}
	}
}

func runC12Parallelise(rc *RunCtx) {
	ch := rc.Ch
	res := rc.Res
	n := ch.Intn("n", 8)
	if ch.Pick("many", 6, 1) == 1 {
		// many arguments: the result channel must have room for every worker even when the caller stops
		// receiving after the first error
		n = []int{64, 127, 128, 129, 130, 131, 200, 300, 1000}[ch.Intn("nmany", 9)]
	}
	keep := ch.Intn("keep", 2) == 1
	type argT struct {
		id    int
		delay time.Duration
		fail  bool
	}
	args := make([]argT, n)
	nfail := 0
	for i := range args {
		args[i] = argT{id: i, delay: time.Duration(ch.Intn("delay", 50)) * time.Millisecond, fail: ch.Pick("fail", 4, 1) == 1}
		if args[i].fail {
			nfail++
		}
	}
	shown := args
	if len(shown) > 12 {
		shown = shown[:12]
	}
	res.Config = fmt.Sprintf("runner=Parallelise n=%d keep=%v failing=%d args(first 12)=%v", n, keep, nfail, shown)
	var mu sync.Mutex
	invoked := map[int]int{}
	errs := map[error]int{}
	var results interface{}
	var runErr error
	returned := false
	dl := Bubble(rc.T, func() {
		var rt reflect.Type
		if keep {
			rt = reflect.TypeOf([]int{})
		}
		results, runErr = parallelisation.Parallelise(args, func(a interface{}) (interface{}, error) {
			arg := a.(argT)
			mu.Lock()
			invoked[arg.id]++
			mu.Unlock()
			time.Sleep(arg.delay)
			if arg.fail {
				e := fmt.Errorf("arg %d failed", arg.id)
				mu.Lock()
				errs[e] = arg.id
				mu.Unlock()
				return nil, e
			}
			return arg.id * 10, nil
		}, rt)
		returned = true
	})
	res.Steps = 1
	res.NonTrivial = nfail > 0 || n > 1
	// results arrive in completion order and equal delays tie: the digest is over the multiset
	sorted := []int{}
	if got, ok := results.([]int); ok {
		sorted = append(sorted, got...)
		sort.Ints(sorted)
	}
	res.Digest = hashStrings(res.Config, fmt.Sprint(runErr == nil), fmt.Sprint(sorted))
	if dl != "" || !returned {
		res.Violate("runner-blocked", "blocked-for-ever|runner=Parallelise", fmt.Sprintf("%s: Parallelise or one of its goroutines never finished: %s", res.Config, dl))
		return
	}
	for i := 0; i < n; i++ {
		if invoked[i] != 1 {
			res.Violate("wrong-result", "parallelise|invocations", fmt.Sprintf("%s: action invoked %d times for argument %d", res.Config, invoked[i], i))
		}
	}
	if nfail == 0 {
		if runErr != nil {
			res.Violate("wrong-result", "parallelise|unexpected-error", fmt.Sprintf("%s: %v", res.Config, runErr))
		} else if keep {
			got, _ := results.([]int)
			want := []int{}
			for i := 0; i < n; i++ {
				want = append(want, i*10)
			}
			g := append([]int{}, got...)
			sort.Ints(g)
			if !reflect.DeepEqual(g, want) {
				res.Violate("wrong-result", "parallelise|results", fmt.Sprintf("%s: results %v, want the multiset %v", res.Config, got, want))
			}
		}
	} else {
		if _, ok := errs[runErr]; !ok {
			res.Violate("wrong-result", "parallelise|error-not-from-an-invocation", fmt.Sprintf("%s: returned error %v is not one an invocation returned", res.Config, runErr))
		}
	}
	if rc.KeepTrace {
		res.Trace = []string{res.Config, fmt.Sprintf("err=%v results=%v", runErr, results)}
	}
}

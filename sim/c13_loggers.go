package sim

import (
	"bytes"
	"context"
	"fmt"
	"golang.org/x/exp/slog"
	"io"
	"log"
	"os"
	"path/filepath"
	"regexp"
	"sort"
	"strconv"
	"strings"
	"sync"
	"syscall"
	"time"

	"github.com/go-logr/stdr"
	"github.com/hashicorp/go-hclog"
	"github.com/sirupsen/logrus"
	"go.uber.org/zap"
	"go.uber.org/zap/zapcore"

	"github.com/ARM-software/golang-utils/utils/logs"
	"github.com/ARM-software/golang-utils/utils/parallelisation"
)

func init() {
	Register(&Prop{
		ID:             "C13",
		Run:            runC13,
		Level:          "exploration",
		ReplayAttempts: 40,
		Rule: "engine 'race' (the worker is built with -race). One run = one logger (string, plain string, std with stdout/stderr redirected to scratch files, file, JSON, zap / logrus / hclog / slog / stdr through the logr adapter, quiet, noop, multiple / combined loggers of 1..4 members, asynchronous ring-buffered with ring sizes 1..1024) and a seeded sequence of 1..4 ROUNDS: in each round a seeded subset of 2..32 producer goroutines is released together (one close of a channel) and joined before the next round, each producer issuing a seeded mix of Log, LogError, SetLogSource, SetLoggerSource and Append with unique messages. " +
			"Operations of one round are concurrent in the happens-before sense whatever the hardware does, so the race detector (vector clocks) reports an unsynchronised access pair independently of the actual interleaving; the asynchronous logger runs inside a synctest bubble (fake clock for the ring poller and the slow sink). " +
			"oracles: no race report during the run; the sink(s) parsed back into messages equal the multiset sent (exactly once, intact, at most one message per line); every member of a composite received every message logged after it was appended; delivered + reported dropped = sent for the ring buffer. " +
			"non-trivial = at least one round with two or more producers; distinct = distinct script digest",
		Real:        []string{"utils/logs (every constructor named above, composite loggers, writers, diode writer)", "third-party loggers behind the adapters (zap, logrus + lfshook, hclog, slog, stdr, zerolog + diode)"},
		Stub:        []string{"partial order of the producers: seeded rounds (the interleaving inside a round is the hardware's; only the race report and the content after the join are relied on)", "sinks: mutex-protected harness buffers, scratch files", "time for the asynchronous logger: testing/synctest fake clock"},
		Assumptions: []string{"go1.26.8 -race; a race report is attributed to the run during which the race log grew; the race runtime reports a given pair of stacks once per process, the replay runs in a fresh process", "lost-update style defects that do not constitute a data race depend on real interleavings: a replay re-executes the script up to 40 times"},
	})
}

// safeSink is a goroutine-safe io.Writer / WriterWithSource.
type safeSink struct {
	mu      sync.Mutex
	buf     bytes.Buffer
	closed  bool
	delay   time.Duration // slow writer (asynchronous logger, fake clock)
	afterCl int
	refuse  func(p []byte) bool // injected I/O fault: such a write fails without effect
	refused int
}

var errSinkIO = &os.PathError{Op: "write", Path: "sink", Err: syscall.ENOSPC}

func (s *safeSink) Write(p []byte) (int, error) {
	if s.delay > 0 {
		time.Sleep(s.delay)
	}
	s.mu.Lock()
	defer s.mu.Unlock()
	if s.refuse != nil && s.refuse(p) {
		s.refused++
		return 0, errSinkIO
	}
	if s.closed {
		s.afterCl++
	}
	return s.buf.Write(p)
}
func (s *safeSink) Close() error {
	s.mu.Lock()
	s.closed = true
	s.mu.Unlock()
	return nil
}
func (s *safeSink) SetSource(string) error { return nil }
func (s *safeSink) Sync() error            { return nil }
func (s *safeSink) String() string {
	s.mu.Lock()
	defer s.mu.Unlock()
	return s.buf.String()
}

var tokenRe = regexp.MustCompile(`p(\d+)-(\d+)-(x*);E`)

func c13Token(p, n int) string {
	pad := (p*37 + n*101) % 300
	if (p+n)%11 == 0 {
		pad = 3000 + (p*13+n)%1100
	}
	return fmt.Sprintf("p%d-%d-%s;E", p, n, strings.Repeat("x", pad))
}

type c13Logger struct {
	name     string
	lg       logs.Loggers
	multi    logs.IMultipleLoggers
	content  func() map[string]string // sink name -> content
	dropsLog bool                     // Log() is dropped by design (quiet)
	dropsAll bool                     // noop
	members  []*logs.StringLoggers
	// other is a second composite built from the same argument slice; otherPrivate are members appended to it only
	other        logs.IMultipleLoggers
	otherPrivate []*logs.StringLoggers
	cleanup      func()
	dropped      func() int // reported dropped (async)
	faultyMember int        // multiple-writers: index of the member that refuses some writes (-1 none)
	refusals     func() int
}

var stdSwap sync.Mutex

func c13NewLogger(kind int, scratch string, ch *Chooser) (*c13Logger, error) {
	src := "sim"
	switch kind {
	case 0, 1:
		var sl *logs.StringLoggers
		var err error
		if kind == 0 {
			sl, err = logs.NewStringLogger(src)
		} else {
			sl, err = logs.NewPlainStringLogger()
		}
		if err != nil {
			return nil, err
		}
		return &c13Logger{name: []string{"string", "plain-string"}[kind], lg: sl, content: func() map[string]string { return map[string]string{"log": sl.GetLogContent()} }}, nil
	case 2:
		stdSwap.Lock()
		of, err1 := os.CreateTemp(scratch, "stdout-")
		ef, err2 := os.CreateTemp(scratch, "stderr-")
		if err1 != nil || err2 != nil {
			stdSwap.Unlock()
			return nil, fmt.Errorf("scratch: %v %v", err1, err2)
		}
		oldO, oldE := os.Stdout, os.Stderr
		os.Stdout, os.Stderr = of, ef
		lg, err := logs.NewStdLogger(src)
		os.Stdout, os.Stderr = oldO, oldE
		stdSwap.Unlock()
		if err != nil {
			return nil, err
		}
		return &c13Logger{name: "std", lg: lg, content: func() map[string]string {
			o, _ := os.ReadFile(of.Name())
			e, _ := os.ReadFile(ef.Name())
			return map[string]string{"stdout": string(o), "stderr": string(e)}
		}, cleanup: func() { of.Close(); ef.Close(); os.Remove(of.Name()); os.Remove(ef.Name()) }}, nil
	case 3:
		f, err := os.CreateTemp(scratch, "filelog-")
		if err != nil {
			return nil, err
		}
		f.Close()
		lg, err := logs.NewFileOnlyLogger(f.Name(), src)
		if err != nil {
			return nil, err
		}
		return &c13Logger{name: "file", lg: lg, content: func() map[string]string {
			b, _ := os.ReadFile(f.Name())
			return map[string]string{"file": string(b)}
		}, cleanup: func() { os.Remove(f.Name()) }}, nil
	case 4:
		sink := &safeSink{}
		lg, err := logs.NewJSONLogger(sink, src, "source")
		if err != nil {
			return nil, err
		}
		return &c13Logger{name: "json", lg: lg, content: func() map[string]string { return map[string]string{"json": sink.String()} }}, nil
	case 5:
		sink := &safeSink{}
		core := zapcore.NewCore(zapcore.NewJSONEncoder(zap.NewProductionEncoderConfig()), zapcore.AddSync(sink), zapcore.DebugLevel)
		lg, err := logs.NewZapLogger(zap.New(core), src)
		if err != nil {
			return nil, err
		}
		return &c13Logger{name: "zap", lg: lg, content: func() map[string]string { return map[string]string{"zap": sink.String()} }}, nil
	case 6:
		sink := &safeSink{}
		l := logrus.New()
		l.SetOutput(sink)
		lg, err := logs.NewLogrusLogger(l, src)
		if err != nil {
			return nil, err
		}
		return &c13Logger{name: "logrus", lg: lg, content: func() map[string]string { return map[string]string{"logrus": sink.String()} }}, nil
	case 7:
		sink := &safeSink{}
		lg, err := logs.NewHclogLogger(hclog.New(&hclog.LoggerOptions{Output: sink, Level: hclog.Debug}), src)
		if err != nil {
			return nil, err
		}
		return &c13Logger{name: "hclog", lg: lg, content: func() map[string]string { return map[string]string{"hclog": sink.String()} }}, nil
	case 8:
		sink := &safeSink{}
		lg, err := logs.NewSlogLogger(slog.New(slog.NewTextHandler(sink, nil)), src)
		if err != nil {
			return nil, err
		}
		return &c13Logger{name: "slog", lg: lg, content: func() map[string]string { return map[string]string{"slog": sink.String()} }}, nil
	case 9:
		sink := &safeSink{}
		lg, err := logs.NewLogrLogger(stdr.New(log.New(sink, "", 0)), src)
		if err != nil {
			return nil, err
		}
		return &c13Logger{name: "stdr", lg: lg, content: func() map[string]string { return map[string]string{"stdr": sink.String()} }}, nil
	case 10:
		sl, err := logs.NewStringLogger(src)
		if err != nil {
			return nil, err
		}
		lg, err := logs.NewQuietLogger(sl)
		if err != nil {
			return nil, err
		}
		return &c13Logger{name: "quiet", lg: lg, dropsLog: true, content: func() map[string]string { return map[string]string{"log": sl.GetLogContent()} }}, nil
	case 11:
		lg, err := logs.NewNoopLogger(src)
		if err != nil {
			return nil, err
		}
		return &c13Logger{name: "noop", lg: lg, dropsAll: true, content: func() map[string]string { return map[string]string{} }}, nil
	case 12, 13:
		n := 1 + ch.Intn("members", 4)
		var members []*logs.StringLoggers
		list := make([]logs.Loggers, 0, n+4) // spare capacity: the composite must not keep this backing array
		for i := 0; i < n; i++ {
			sl, err := logs.NewPlainStringLogger()
			if err != nil {
				return nil, err
			}
			members = append(members, sl)
			list = append(list, sl)
		}
		var ml logs.IMultipleLoggers
		var err error
		name := "multiple"
		if kind == 12 {
			ml, err = logs.NewMultipleLoggers(src, list...)
		} else {
			ml, err = logs.NewCombinedLoggers(list...)
			name = "combined"
		}
		if err != nil {
			return nil, err
		}
		c := &c13Logger{name: name, lg: ml, multi: ml, members: members}
		// a second composite built from the very same argument slice, with a member of its own appended:
		// nothing logged through the first composite may end up in that private member
		var other logs.IMultipleLoggers
		if kind == 12 {
			other, err = logs.NewMultipleLoggers(src, list...)
		} else {
			other, err = logs.NewCombinedLoggers(list...)
		}
		if err != nil {
			return nil, err
		}
		c.other = other
		c.content = func() map[string]string {
			out := map[string]string{}
			for i, m := range c.members {
				out[fmt.Sprintf("member%d", i)] = m.GetLogContent()
			}
			return out
		}
		return c, nil
	case 15:
		// a logger over the composite writer; one member may be a device that refuses some writes (I/O fault):
		// the healthy members must still receive every message
		n := 2 + ch.Intn("wmembers", 3)
		faulty := ch.Intn("faultymember", n+1) - 1 // -1: none
		sinks := make([]*safeSink, n)
		ws := make([]logs.WriterWithSource, n)
		for i := range sinks {
			sinks[i] = &safeSink{}
			ws[i] = sinks[i]
		}
		if faulty >= 0 {
			sinks[faulty].refuse = func(p []byte) bool {
				m := tokenRe.FindSubmatch(p)
				if m == nil {
					return false
				}
				k, _ := strconv.Atoi(string(m[2]))
				return k%5 == 0
			}
		}
		w, err := logs.NewMultipleWritersWithSource(ws...)
		if err != nil {
			return nil, err
		}
		lg := &logs.GenericLoggers{Output: log.New(w, "out: ", 0), Error: log.New(w, "err: ", 0)}
		c := &c13Logger{name: "multiple-writers", lg: lg, faultyMember: faulty}
		c.content = func() map[string]string {
			out := map[string]string{}
			for i, sk := range sinks {
				out[fmt.Sprintf("member%d", i)] = sk.String()
			}
			return out
		}
		c.refusals = func() int {
			if faulty < 0 {
				return 0
			}
			sinks[faulty].mu.Lock()
			defer sinks[faulty].mu.Unlock()
			return sinks[faulty].refused
		}
		return c, nil
	}
	return nil, fmt.Errorf("unknown logger kind %d", kind)
}

func init() {
	Register(&Prop{
		ID:             "C12S",
		Run:            runC12StoreProp,
		Level:          "exploration",
		ReplayAttempts: 40,
		Rule:           "engine 'race': rounds of 2..16 goroutines released together, each issuing a seeded mix of RegisterCancelFunction / Cancel / Len on one cancel store; every function whose registration returned before a round started must be invoked by the Cancel calls of that round; no registration may be lost; no race report. non-trivial = every run; distinct = distinct script digest",
		Real:           []string{"utils/parallelisation cancel_functions.go"},
		Stub:           []string{"partial order of the callers: seeded rounds under the race detector"},
		Assumptions:    []string{"lost-update defects that are not data races depend on the real interleaving inside a round: detection is probabilistic, a replay re-executes the script up to 40 times"},
	})
}

func runC12StoreProp(rc *RunCtx) {
	before := raceLogSize()
	defer func() {
		for _, v := range newRaceReports(before) {
			rc.Res.Violate(v.Kind, v.Sig, v.Detail)
		}
	}()
	runC12Store(rc)
}

const c13Kinds = 16 // 14 = asynchronous, 15 = logger over the composite writer

// raceLog returns the path of this process' race log (GORACE log_path=...), "" when unknown.
func raceLog() string {
	for _, f := range strings.Fields(os.Getenv("GORACE")) {
		if strings.HasPrefix(f, "log_path=") {
			return strings.TrimPrefix(f, "log_path=") + "." + strconv.Itoa(os.Getpid())
		}
	}
	return ""
}

func raceLogSize() int64 {
	p := raceLog()
	if p == "" {
		return 0
	}
	fi, err := os.Stat(p)
	if err != nil {
		return 0
	}
	return fi.Size()
}

var raceFrameRe = regexp.MustCompile(`^  (\S+)\(`)

// newRaceReports parses race reports appended to the log since offset and returns one signature per report.
func newRaceReports(offset int64) []Violation {
	p := raceLog()
	if p == "" {
		return nil
	}
	f, err := os.Open(p)
	if err != nil {
		return nil
	}
	defer f.Close()
	_, _ = f.Seek(offset, io.SeekStart)
	b, _ := io.ReadAll(f)
	var out []Violation
	for _, block := range strings.Split(string(b), "WARNING: DATA RACE") {
		if !strings.Contains(block, "by goroutine") {
			continue
		}
		// two stacks: the access and the previous access
		var firsts []string
		cur := ""
		inStack := false
		for _, line := range strings.Split(block, "\n") {
			switch {
			case strings.Contains(line, " by goroutine ") || strings.Contains(line, " by main goroutine"):
				if strings.HasPrefix(line, "Goroutine ") {
					inStack = false
					continue
				}
				if inStack && cur != "" {
					firsts = append(firsts, cur)
				}
				cur, inStack = "", true
			case strings.HasPrefix(line, "Goroutine "):
				if inStack && cur != "" {
					firsts = append(firsts, cur)
				}
				inStack, cur = false, ""
			case inStack:
				if m := raceFrameRe.FindStringSubmatch(line); m != nil {
					fn := m[1]
					if strings.Contains(fn, "golang-utils/utils/") && (cur == "" || !strings.Contains(cur, "golang-utils/utils/")) {
						cur = fn
					} else if cur == "" && !strings.HasPrefix(fn, "runtime.") && !strings.HasPrefix(fn, "verif/sim.") {
						cur = fn
					}
				}
			}
		}
		if inStack && cur != "" {
			firsts = append(firsts, cur)
		}
		for i, fn := range firsts {
			if j := strings.Index(fn, "golang-utils/utils/"); j >= 0 {
				firsts[i] = fn[j+len("golang-utils/utils/"):]
			}
		}
		sort.Strings(firsts)
		sig := "data-race|" + strings.Join(firsts, "|")
		detail := block
		if len(detail) > 3000 {
			detail = detail[:3000]
		}
		out = append(out, Violation{Kind: "data-race", Sig: sig, Detail: "WARNING: DATA RACE" + detail})
	}
	return out
}

func runC13(rc *RunCtx) {
	ch := rc.Ch
	res := rc.Res
	before := raceLogSize()
	defer func() {
		for _, v := range newRaceReports(before) {
			res.Violate(v.Kind, v.Sig, v.Detail)
		}
	}()
	kind := ch.Intn("kind", c13Kinds)
	if kind == 14 {
		runC13Async(rc)
		return
	}
	scratch := os.Getenv("VERIF_SCRATCH")
	if scratch == "" {
		scratch = os.TempDir()
	}
	lg, err := c13NewLogger(kind, scratch, ch)
	if err != nil {
		res.Infra = "cannot build logger: " + err.Error()
		return
	}
	if lg.cleanup != nil {
		defer lg.cleanup()
	}
	nprod := []int{2, 3, 4, 8, 16, 32}[ch.Pick("producers", 4, 3, 3, 2, 1, 1)]
	rounds := 1 + ch.Intn("rounds", 4)
	type action struct {
		op int // 0 Log 1 LogError 2 SetLogSource 3 SetLoggerSource 4 Append
		n  int
	}
	script := make([][][]action, rounds) // round -> producer -> actions (nil: not released in this round)
	counter := 0
	for r := range script {
		script[r] = make([][]action, nprod)
		released := 0
		for p := 0; p < nprod; p++ {
			if ch.Intn("in", 4) == 0 && released >= 2 {
				continue
			}
			released++
			k := 1 + ch.Intn("nacts", 3)
			for i := 0; i < k; i++ {
				op := ch.Pick("op", 5, 5, 1, 1, 1)
				if op == 4 && lg.multi == nil {
					op = 0
				}
				counter++
				script[r][p] = append(script[r][p], action{op: op, n: counter})
			}
		}
	}
	res.Config = fmt.Sprintf("logger=%s producers=%d rounds=%d script=%v", lg.name, nprod, rounds, script)
	res.Digest = hashStrings(res.Config)
	res.NonTrivial = true
	res.Steps = counter
	// expected tokens per stream, and per appended member the round from which it must see everything
	sentOut, sentErr := map[string]int{}, map[string]int{}
	type appended struct {
		sl    *logs.StringLoggers
		round int
	}
	var appendedMu sync.Mutex
	var appendedList []appended
	perRound := make([][]string, rounds)
	for r := 0; r < rounds; r++ {
		start := make(chan struct{})
		var wg sync.WaitGroup
		for p := 0; p < nprod; p++ {
			acts := script[r][p]
			if acts == nil {
				continue
			}
			wg.Add(1)
			go func(p int, acts []action) {
				defer wg.Done()
				<-start
				for _, a := range acts {
					tok := c13Token(p, a.n)
					switch a.op {
					case 0:
						lg.lg.Log(tok)
					case 1:
						lg.lg.LogError(tok)
					case 2:
						_ = lg.lg.SetLogSource(fmt.Sprintf("source-%d", a.n))
					case 3:
						_ = lg.lg.SetLoggerSource(fmt.Sprintf("logger-%d", a.n))
					case 4:
						sl, err := logs.NewPlainStringLogger()
						if err == nil {
							_ = lg.multi.Append(sl)
							appendedMu.Lock()
							appendedList = append(appendedList, appended{sl: sl, round: r})
							appendedMu.Unlock()
						}
					}
				}
			}(p, acts)
			for _, a := range acts {
				tok := c13Token(p, a.n)
				switch a.op {
				case 0:
					sentOut[tok]++
					perRound[r] = append(perRound[r], tok)
				case 1:
					sentErr[tok]++
					perRound[r] = append(perRound[r], tok)
				}
			}
		}
		close(start)
		wg.Wait()
		if lg.other != nil {
			// between two rounds the second composite gets a private member of its own
			if priv, err := logs.NewPlainStringLogger(); err == nil {
				_ = lg.other.Append(priv)
				lg.otherPrivate = append(lg.otherPrivate, priv)
			}
		}
	}
	_ = lg.lg.Close
	contents := lg.content()
	viol := func(sig, msg string) {
		res.Violate("log-content", "logs|"+lg.name+"|"+sig, fmt.Sprintf("%s: %s", res.Config[:min(len(res.Config), 300)], msg))
	}
	checkSink := func(name, content string, want map[string]int) {
		got := map[string]int{}
		for _, line := range strings.Split(content, "\n") {
			ms := tokenRe.FindAllStringSubmatch(line, -1)
			if len(ms) > 1 {
				viol("two-messages-in-one-line", fmt.Sprintf("sink %s: a line carries %d messages", name, len(ms)))
			}
			for _, m := range ms {
				p, _ := strconv.Atoi(m[1])
				n, _ := strconv.Atoi(m[2])
				if m[0] != c13Token(p, n) {
					viol("message-corrupted", fmt.Sprintf("sink %s: message p%d-%d arrived altered (%d bytes instead of %d)", name, p, n, len(m[0]), len(c13Token(p, n))))
					continue
				}
				got[m[0]]++
			}
		}
		for tok, n := range want {
			switch {
			case got[tok] == 0:
				viol("message-lost", fmt.Sprintf("sink %s: message %s... was never delivered", name, tok[:min(len(tok), 14)]))
			case got[tok] > n:
				viol("message-duplicated", fmt.Sprintf("sink %s: message %s... delivered %d times", name, tok[:min(len(tok), 14)], got[tok]))
			}
		}
		for tok := range got {
			if want[tok] == 0 {
				viol("unexpected-message", fmt.Sprintf("sink %s: message %s... was not sent to this stream", name, tok[:min(len(tok), 14)]))
			}
		}
	}
	all := map[string]int{}
	for k, v := range sentErr {
		all[k] += v
	}
	if !lg.dropsLog {
		for k, v := range sentOut {
			all[k] += v
		}
	}
	switch {
	case lg.dropsAll:
	case lg.name == "std":
		checkSink("stdout", contents["stdout"], sentOut)
		checkSink("stderr", contents["stderr"], sentErr)
	case lg.multi != nil:
		for name, c := range contents {
			checkSink(name, c, all)
		}
		for _, priv := range lg.otherPrivate {
			if leak := tokenRe.FindString(priv.GetLogContent()); leak != "" {
				viol("message-delivered-to-foreign-composite", fmt.Sprintf("a message logged through this composite (%s...) was delivered to the private member of another composite built from the same argument slice", leak[:min(len(leak), 14)]))
			}
		}
		// members appended in round r must have every message of the rounds after r (and nothing is required of round r itself)
		for i, a := range appendedList {
			want := map[string]int{}
			for r := a.round + 1; r < rounds; r++ {
				for _, tok := range perRound[r] {
					want[tok]++
				}
			}
			content := a.sl.GetLogContent()
			for tok := range want {
				if !strings.Contains(content, tok) {
					viol("appended-member-misses-messages", fmt.Sprintf("member appended concurrently in round %d (#%d) did not receive message %s... logged in a later round", a.round, i, tok[:min(len(tok), 14)]))
					break
				}
			}
		}
	case lg.name == "multiple-writers":
		for name, c := range contents {
			want := all
			if lg.faultyMember >= 0 && name == fmt.Sprintf("member%d", lg.faultyMember) {
				want = map[string]int{}
				for tok, n := range all {
					if m := tokenRe.FindStringSubmatch(tok); m != nil {
						if k, _ := strconv.Atoi(m[2]); k%5 == 0 {
							continue
						}
					}
					want[tok] = n
				}
			}
			checkSink(name, c, want)
		}
		if lg.faultyMember >= 0 {
			res.FaultN("sink-write-refused", lg.refusals())
		}
	default:
		for name, c := range contents {
			checkSink(name, c, all)
		}
	}
	if rc.KeepTrace {
		res.Trace = []string{res.Config}
	}
	_ = filepath.Join
}

// runC13Async: the ring-buffered asynchronous logger on the fake clock.
func runC13Async(rc *RunCtx) {
	ch := rc.Ch
	res := rc.Res
	ring := []int{1, 2, 4, 16, 64, 1024}[ch.Intn("ring", 6)]
	poll := []time.Duration{time.Millisecond, 10 * time.Millisecond}[ch.Intn("poll", 2)]
	sinkDelay := []time.Duration{0, 200 * time.Microsecond, 5 * time.Millisecond}[ch.Intn("sinkdelay", 3)]
	nprod := 1 + ch.Intn("producers", 6)
	type burst struct {
		prod  int
		count int
		err   bool
		gap   time.Duration
		par   int // producers logging this burst concurrently (each count messages)
	}
	nb := 1 + ch.Intn("bursts", 6)
	bursts := make([]burst, nb)
	for i := range bursts {
		bursts[i] = burst{prod: ch.Intn("prod", nprod), count: 1 + ch.Intn("count", 40), err: ch.Intn("stream", 2) == 1, gap: []time.Duration{0, time.Millisecond, 30 * time.Millisecond, 200 * time.Millisecond}[ch.Intn("gap", 4)], par: 1 + ch.Pick("par", 2, 1, 1, 1)}
	}
	// aligned: bursts start at the very instants at which the ring poller wakes up, so that producer and poller
	// really run concurrently (hardware interleaving, E4 style); otherwise bursts land 1ns off every poll instant
	// and the run is fully deterministic
	aligned := ch.Pick("aligned", 9, 1) == 1
	res.Config = fmt.Sprintf("logger=asynchronous ring=%d poll=%v sinkDelay=%v producers=%d burstsAlignedWithPoller=%v bursts=%v", ring, poll, sinkDelay, nprod, aligned, bursts)
	res.Digest = hashStrings(res.Config)
	res.NonTrivial = true
	outSink, errSink := &safeSink{delay: sinkDelay}, &safeSink{delay: sinkDelay}
	dropLog, _ := logs.NewPlainStringLogger()
	sentOut, sentErr := map[string]int{}, map[string]int{}
	counter := 0
	var order = map[int][]string{}  // producer -> tokens in send order
	var outOrder, errOrder []string // per stream, in send order
	dl := Bubble(rc.T, func() {
		lg, err := logs.NewAsynchronousLoggers(outSink, errSink, ring, poll, "sim", "source", dropLog)
		if err != nil {
			res.Infra = "cannot build asynchronous logger: " + err.Error()
			return
		}
		if !aligned {
			time.Sleep(500*time.Microsecond + time.Nanosecond)
		}
		for _, b := range bursts {
			// tokens are assigned up front; with par > 1 the producers of a burst really run concurrently
			// (only interleaving-independent facts are judged afterwards)
			toks := make([][]string, b.par)
			for i := 0; i < b.count; i++ {
				for p := 0; p < b.par; p++ {
					counter++
					tok := c13Token(b.prod+p, counter)
					toks[p] = append(toks[p], tok)
					order[b.prod+p] = append(order[b.prod+p], tok)
					if b.err {
						errOrder = append(errOrder, tok)
						sentErr[tok]++
					} else {
						outOrder = append(outOrder, tok)
						sentOut[tok]++
					}
				}
			}
			send := func(list []string) {
				for _, tok := range list {
					if b.err {
						lg.LogError(tok)
					} else {
						lg.Log(tok)
					}
				}
			}
			if b.par == 1 {
				send(toks[0])
			} else {
				var wg sync.WaitGroup
				start := make(chan struct{})
				for p := 0; p < b.par; p++ {
					wg.Add(1)
					go func(list []string) {
						defer wg.Done()
						<-start
						send(list)
					}(toks[p])
				}
				close(start)
				wg.Wait()
			}
			if b.gap > 0 {
				time.Sleep(b.gap)
			}
		}
		time.Sleep(2 * time.Second) // quiescence: the poller drains the ring
		_ = lg.Close()
	})
	res.Steps = counter
	if dl != "" {
		res.Violate("blocked", "logs|asynchronous|blocked", res.Config+": "+dl)
		return
	}
	if res.Infra != "" {
		return
	}
	viol := func(sig, msg string) {
		res.Violate("log-content", "logs|asynchronous|"+sig, fmt.Sprintf("%s: %s", res.Config, msg))
	}
	reported := 0
	for _, m := range regexp.MustCompile(`Logger dropped (\d+) messages`).FindAllStringSubmatch(dropLog.GetLogContent(), -1) {
		n, _ := strconv.Atoi(m[1])
		reported += n
	}
	deliveredSet := map[string]bool{}
	count := func(content string, want map[string]int, stream string) int {
		delivered := 0
		label := map[string]string{"output": "Output", "error": "Error"}[stream]
		for _, line := range strings.Split(content, "\n") {
			ms := tokenRe.FindAllStringSubmatch(line, -1)
			if len(ms) > 1 {
				viol("two-messages-in-one-line", fmt.Sprintf("%s sink: a line carries %d messages", stream, len(ms)))
			}
			// intact: the whole line is one header followed by one message
			if len(ms) == 0 && strings.TrimSpace(line) != "" {
				viol("fragment-of-a-message-delivered", fmt.Sprintf("%s sink: line %q carries no complete message", stream, truncate(line, 120)))
			}
			if len(ms) == 1 && !(strings.HasPrefix(line, "[sim] "+label+" (") && strings.HasSuffix(line, "): "+ms[0][0]) && strings.Count(line, "[sim]") == 1) {
				viol("message-not-intact", fmt.Sprintf("%s sink: line %q is not one header followed by one message", stream, truncate(line, 160)))
			}
			for _, m := range ms {
				p, _ := strconv.Atoi(m[1])
				n, _ := strconv.Atoi(m[2])
				if m[0] != c13Token(p, n) {
					viol("message-corrupted", fmt.Sprintf("%s sink: message p%d-%d altered", stream, p, n))
					continue
				}
				if want[m[0]] == 0 {
					viol("unexpected-message", fmt.Sprintf("%s sink: message not sent to this stream", stream))
				}
				deliveredSet[m[0]] = true
				delivered++
			}
		}
		return delivered
	}
	dOut := count(outSink.String(), sentOut, "output")
	dErr := count(errSink.String(), sentErr, "error")
	sent := len(sentOut) + len(sentErr)
	res.ProbeN("async-dropped-and-reported", reported)
	// every message that did not reach its sink must be covered by a "dropped" report. The ring buffer
	// (zerolog diode) may over-count by one when the poller and a producer touch the same slot at the
	// same moment: that is counted by a probe, it does not lose a message silently.
	if lost := sent - dOut - dErr; lost > reported {
		// which messages are missing? Overwritten (and reportable) messages are the oldest ones; if the
		// messages sent last on a stream are missing the ring reader is stuck, which only happens when poller
		// and producer touch the same stale slot concurrently (zerolog diode, third party; aligned mode only)
		cls := "dropped-without-report"
		stuck := func(order []string) bool {
			return len(order) > 0 && !deliveredSet[order[len(order)-1]]
		}
		concurrentProducers := false
		for _, b := range bursts {
			if b.par > 1 {
				concurrentProducers = true
			}
		}
		// a collision on a ring slot - poller against producer (aligned bursts) or two producers a lap apart (concurrent
		// bursts) - makes the losing producer skip a sequence number, and the reader waits on that hole
		if (aligned || concurrentProducers) && (stuck(outOrder) || stuck(errOrder)) {
			cls = "ring-reader-stuck-on-stale-slot"
		}
		viol(cls, fmt.Sprintf("sent %d messages (%d output, %d error), delivered %d + %d, reported dropped %d: %d messages vanished without a report", sent, len(sentOut), len(sentErr), dOut, dErr, reported, lost-reported))
	} else if lost < reported {
		res.ProbeN("async-dropped-overreported", reported-lost)
	}
	if dOut > len(sentOut) || dErr > len(sentErr) {
		viol("message-duplicated", fmt.Sprintf("delivered more than sent: output %d/%d error %d/%d", dOut, len(sentOut), dErr, len(sentErr)))
	}
	if rc.KeepTrace {
		res.Trace = []string{res.Config, fmt.Sprintf("sent=%d deliveredOut=%d deliveredErr=%d reportedDropped=%d", sent, dOut, dErr, reported)}
	}
}

// runC12Store: C12's cancel-store clause - rounds of concurrent Register / Cancel / Len.
func runC12Store(rc *RunCtx) {
	ch := rc.Ch
	res := rc.Res
	rounds := 2 + ch.Intn("rounds", 4)
	type act struct {
		op int // 0 register 1 cancel 2 len
		n  int
	}
	script := make([][][]act, rounds)
	nprod := []int{2, 4, 8, 16}[ch.Intn("producers", 4)]
	counter := 0
	for r := range script {
		script[r] = make([][]act, nprod)
		for p := 0; p < nprod; p++ {
			k := 1 + ch.Intn("nacts", 3)
			for i := 0; i < k; i++ {
				counter++
				script[r][p] = append(script[r][p], act{op: ch.Pick("op", 5, 2, 1), n: counter})
			}
		}
	}
	res.Config = fmt.Sprintf("cancel-store producers=%d rounds=%d script=%v", nprod, rounds, script)
	res.Digest = hashStrings(res.Config)
	res.NonTrivial = true
	res.Steps = counter
	store := parallelisation.NewCancelFunctionsStore()
	var mu sync.Mutex
	invokedAt := map[int]int{} // function id -> number of invocations
	registeredRound := map[int]int{}
	cancelRounds := map[int]bool{}
	for r := 0; r < rounds; r++ {
		start := make(chan struct{})
		var wg sync.WaitGroup
		for p := 0; p < nprod; p++ {
			acts := script[r][p]
			wg.Add(1)
			go func(acts []act) {
				defer wg.Done()
				<-start
				for _, a := range acts {
					switch a.op {
					case 0:
						id := a.n
						_, cancel := context.WithCancel(context.Background())
						store.RegisterCancelFunction(func() {
							cancel()
							mu.Lock()
							invokedAt[id]++
							mu.Unlock()
						})
					case 1:
						store.Cancel()
					default:
						_ = store.Len()
					}
				}
			}(acts)
			for _, a := range acts {
				switch a.op {
				case 0:
					registeredRound[a.n] = r
				case 1:
					cancelRounds[r] = true
				}
			}
		}
		close(start)
		wg.Wait()
		// every function registered in an earlier round must have been invoked by a Cancel of this round
		if cancelRounds[r] {
			mu.Lock()
			for id, rr := range registeredRound {
				if rr < r && invokedAt[id] == 0 {
					res.Violate("cancel-store", "cancel-store|registered-function-not-invoked-by-later-cancel",
						fmt.Sprintf("%s: function %d was registered in round %d (registration returned before round %d started) but the Cancel calls of round %d did not invoke it", res.Config[:min(300, len(res.Config))], id, rr, r, r))
					break
				}
			}
			mu.Unlock()
		}
	}
	if n := store.Len(); n != len(registeredRound) {
		res.Violate("cancel-store", "cancel-store|registration-lost", fmt.Sprintf("%s: %d functions were registered but the store holds %d", res.Config[:min(300, len(res.Config))], len(registeredRound), n))
	}
}

func truncate(s string, n int) string {
	if len(s) <= n {
		return s
	}
	return s[:n] + "..."
}

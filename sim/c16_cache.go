package sim

import (
	"archive/zip"
	"bytes"
	"context"
	"fmt"
	"os"
	"regexp"
	"sort"
	"strings"
	"sync"
	"syscall"
	"time"

	"github.com/anishathalye/porcupine"

	"github.com/ARM-software/golang-utils/utils/commonerrors"
	"github.com/ARM-software/golang-utils/utils/filesystem"
	"github.com/ARM-software/golang-utils/utils/sharedcache"
)

func init() {
	Register(&Prop{
		ID:        "C16",
		Run:       runC16,
		Enumerate: enumC16,
		Level:     "fault_enumeration",
		Rule: "system: 1..4 cache clients (own seam, VFS and repository object each; mutable = lock based, or immutable = .part + rename) over one SimDisk holding the shared store, sources and destinations. " +
			"enumerated part: 'v1 stored, then one client stores v2' with a fault at EVERY backend operation k of that Store x fault variants (process stop before / after operation k, torn write, I/O error instead of effect, lost acknowledgement, short write) x both cache kinds, followed by recovery (stale-lock cleaning after more than two heartbeat periods for the mutable cache) and a Fetch by another client; " +
			"random part: 2..4 clients issuing Store / Fetch / CleanEntry concurrently, interleaved at backend-operation granularity by the seeded scheduler, with and without faults; " +
			"oracles: a successful Fetch installed exactly one complete version whose Store had been invoked; the Store/Fetch history is linearizable as a register (porcupine, failed or crashed Stores may or may not have taken effect); after the last Store that reported success, with nothing in flight, a Fetch returns that version. non-trivial = a fault fired or two operations overlapped; distinct = distinct canonical trace digest",
		Real:        []string{"utils/sharedcache (mutable and immutable repositories, TransferFiles, hash side files)", "utils/filesystem (lock file, zip/unzip, copy/move, temp dirs, hashing)", "utils/parallelisation, utils/hashing, utils/idgen", "avast/retry-go, archive/zip"},
		Stub:        []string{"disk: SimDisk (shared store + local trees)", "time: testing/synctest fake clock", "scheduling at afero.Fs granularity: seeded scheduler", "process stop / I/O error / torn and short writes / lost acknowledgements: fault decisions of the scheduler"},
		Assumptions: []string{"crash model: a client process stops; the shared store keeps every acknowledged operation (the library never calls Sync, no volatile cache is modelled)", "built with go1.26.8 (testing/synctest); go-deadlock detection disabled", "random temp-dir and UUID names are canonicalised by order of appearance in digests; SimDisk lists directories in creation order so behaviour does not depend on them", "porcupine time-outs (30 s) are counted as inconclusive"},
	})
}

const (
	cacheRemote = "/remote"
	cacheKey    = "K"
)

type cacheVersion struct {
	id    int
	files map[string]string // relative path -> content
}

type cacheOp struct {
	client  int
	kind    string // store | fetch | clean
	version int    // store: version stored; fetch: version found (0 = none / error)
	call    int64
	ret     int64 // 0 while pending
	err     error
	crashed bool
	key     string // cache entry the operation addressed
}

type cacheClient struct {
	id     int
	key    string // cache entry this client works on
	seam   *Seam
	vfs    filesystem.FS
	repo   sharedcache.ISharedCacheRepository
	ctx    context.Context
	cancel context.CancelFunc
	dead   bool
	ops    int
}

type cacheWorld struct {
	rc       *RunCtx
	sim      *Sim
	disk     *SimDisk
	mutable  bool
	mu       sync.Mutex
	clients  map[int]*cacheClient
	versions map[int]*cacheVersion
	nextVer  int
	stamp    int64
	history  []*cacheOp
}

var reTmp = regexp.MustCompile(`sharedmutablecache-packing[0-9]+`)
var reUUID = regexp.MustCompile(`[0-9a-f]{8}-[0-9a-f]{4}-[0-9a-f]{4}-[0-9a-f]{4}-[0-9a-f]{12}`)

func newCanon() func(string) string {
	var mu sync.Mutex
	names := map[string]string{}
	return func(p string) string {
		if !strings.Contains(p, "packing") && !reUUID.MatchString(p) {
			return p
		}
		mu.Lock()
		defer mu.Unlock()
		repl := func(s string, prefix string) string {
			if v, ok := names[s]; ok {
				return v
			}
			v := fmt.Sprintf("%s#%d", prefix, len(names))
			names[s] = v
			return v
		}
		p = reTmp.ReplaceAllStringFunc(p, func(s string) string { return repl(s, "TMP") })
		p = reUUID.ReplaceAllStringFunc(p, func(s string) string { return repl(s, "UUID") })
		return p
	}
}

func newCacheWorld(rc *RunCtx, sim *Sim, mutable bool) *cacheWorld {
	w := &cacheWorld{rc: rc, sim: sim, disk: NewSimDisk(), mutable: mutable, clients: map[int]*cacheClient{}, versions: map[int]*cacheVersion{}, nextVer: 1}
	v := w.disk.View(0)
	_ = v.MkdirAll(cacheRemote, 0o755)
	_ = v.MkdirAll(os.TempDir(), 0o777)
	sim.Canon = newCanon()
	return w
}

func (w *cacheWorld) addClient(id int) *cacheClient {
	seam := NewSeam(w.disk.View(id), id)
	w.sim.Attach(seam)
	vfs := filesystem.NewVirtualFileSystem(seam, filesystem.Custom, filesystem.IdentityPathConverterFunc)
	cfg := &sharedcache.Configuration{RemoteStoragePath: cacheRemote, Timeout: 400*time.Millisecond + 13*time.Microsecond + time.Duration(id)} // off the latency grid: no tie between the lock timeout and the retry loop
	var repo sharedcache.ISharedCacheRepository
	var err error
	if w.mutable {
		repo, err = sharedcache.NewSharedMutableCacheRepository(cfg, vfs)
	} else {
		repo, err = sharedcache.NewSharedImmutableCacheRepository(cfg, vfs)
	}
	if err != nil {
		w.rc.Res.Infra = "cannot create repository: " + err.Error()
	}
	ctx, cancel := context.WithCancel(context.Background())
	c := &cacheClient{id: id, key: cacheKey, seam: seam, vfs: vfs, repo: repo, ctx: ctx, cancel: cancel}
	_ = w.disk.View(0).MkdirAll(fmt.Sprintf("/local/c%d", id), 0o755)
	w.mu.Lock()
	w.clients[id] = c
	w.mu.Unlock()
	return c
}

func (w *cacheWorld) cancelAll() {
	w.mu.Lock()
	defer w.mu.Unlock()
	for _, c := range w.clients {
		c.cancel()
	}
}

// newVersion writes a fresh version tree for client c directly on the disk and returns it with its path.
func (w *cacheWorld) newVersion(c int, shape []int) (*cacheVersion, string) {
	w.mu.Lock()
	id := w.nextVer
	w.nextVer++
	w.mu.Unlock()
	ver := &cacheVersion{id: id, files: map[string]string{}}
	root := fmt.Sprintf("/local/c%d/src%d", c, id)
	v := w.disk.View(0)
	_ = v.MkdirAll(root+"/sub", 0o755)
	for i, size := range shape {
		rel := fmt.Sprintf("f%d.txt", i)
		if i%3 == 2 {
			rel = fmt.Sprintf("sub/g%d.txt", i)
		}
		tag := fmt.Sprintf("<v%d %s>", id, rel)
		var sb strings.Builder
		for sb.Len() < size {
			sb.WriteString(tag)
		}
		var content string
		if size < 0 {
			// a file that is itself a valid archive: it is content like any other and must come back as stored
			rel = fmt.Sprintf("sub/bundle%d.zip", i)
			var buf bytes.Buffer
			zw := zip.NewWriter(&buf)
			for j := 0; j < 2; j++ {
				ew, _ := zw.Create(fmt.Sprintf("inner%d.txt", j))
				_, _ = ew.Write([]byte(strings.Repeat(fmt.Sprintf("<v%d inner%d>", id, j), 40)))
			}
			_ = zw.Close()
			content = buf.String()
		} else {
			content = sb.String()[:size]
		}
		ver.files[rel] = content
		f, _ := v.Create(root + "/" + rel)
		_, _ = f.Write([]byte(content))
		_ = f.Close()
	}
	w.mu.Lock()
	w.versions[id] = ver
	w.mu.Unlock()
	return ver, root
}

func (w *cacheWorld) begin(c int, kind string, version int) *cacheOp {
	w.mu.Lock()
	defer w.mu.Unlock()
	w.stamp++
	op := &cacheOp{client: c, kind: kind, version: version, call: w.stamp, key: cacheKey}
	if cl := w.clients[c]; cl != nil {
		op.key = cl.key
	}
	w.history = append(w.history, op)
	return op
}

func (w *cacheWorld) end(op *cacheOp, err error, version int) {
	w.mu.Lock()
	defer w.mu.Unlock()
	w.stamp++
	op.ret, op.err = w.stamp, err
	if op.kind == "fetch" {
		op.version = version
	}
}

// identify reads the tree installed in dest and returns the version it equals (0: none).
func (w *cacheWorld) identify(dest string) (int, string) {
	got := map[string]string{}
	for _, e := range w.disk.Dump(dest) {
		if !e.Dir {
			got[strings.TrimPrefix(e.Path, "/")] = e.Data
		}
	}
	w.mu.Lock()
	defer w.mu.Unlock()
	var ids []int
	for id := range w.versions {
		ids = append(ids, id)
	}
	sort.Ints(ids)
	for _, id := range ids {
		v := w.versions[id]
		if len(v.files) != len(got) {
			continue
		}
		same := true
		for k, c := range v.files {
			if got[k] != c {
				same = false
				break
			}
		}
		if same {
			return id, ""
		}
	}
	var desc []string
	for k, c := range got {
		head := c
		if len(head) > 24 {
			head = head[:24]
		}
		desc = append(desc, fmt.Sprintf("%s(%dB %q)", k, len(c), head))
	}
	sort.Strings(desc)
	return 0, strings.Join(desc, " ")
}

func (w *cacheWorld) store(c *cacheClient, shape []int) (*cacheOp, error) {
	ver, root := w.newVersion(c.id, shape)
	op := w.begin(c.id, "store", ver.id)
	err := c.repo.Store(c.ctx, c.key, root)
	if c.dead {
		op.crashed = true
		return op, err
	}
	w.end(op, err, 0)
	w.sim.Trace.Note(fmt.Sprintf("api c%d Store(v%d) -> %v", c.id, ver.id, err))
	return op, err
}

func (w *cacheWorld) fetch(c *cacheClient) (*cacheOp, error) {
	dest := fmt.Sprintf("/local/c%d/dst-%s", c.id, c.key)
	op := w.begin(c.id, "fetch", 0)
	err := c.repo.Fetch(c.ctx, c.key, dest)
	if c.dead {
		op.crashed = true
		return op, err
	}
	found := 0
	if err == nil {
		var desc string
		found, desc = w.identify(dest)
		known := false
		w.mu.Lock()
		for _, h := range w.history {
			if h.kind == "store" && h.version == found && h.key == op.key {
				known = true // (a version stored under another key does not count: entries are independent)
			}
		}
		w.mu.Unlock()
		if found == 0 || !known {
			kind := "mutable"
			if !w.mutable {
				kind = "immutable"
			}
			w.rc.Res.Violate("fetch-installed-bad-tree", "fetch-ok-but-tree-is-no-stored-version|"+kind,
				fmt.Sprintf("t=%v client %d: Fetch returned nil but the destination equals no stored version (partial, mixed or corrupted): %s", w.sim.Elapsed(), c.id, desc))
		}
	}
	w.end(op, err, found)
	w.sim.Trace.Note(fmt.Sprintf("api c%d Fetch -> v%d err=%v", c.id, found, err))
	return op, err
}

func (w *cacheWorld) clean(c *cacheClient) error {
	op := w.begin(c.id, "clean", 0)
	err := c.repo.CleanEntry(c.ctx, c.key)
	w.end(op, err, 0)
	return err
}

func (w *cacheWorld) kill(c *cacheClient) {
	c.dead = true
	w.sim.Kill(c.id)
	c.cancel()
}

// ---- linearizability as a register

type regInput struct {
	store   bool
	version int
	failed  bool // store that failed or crashed: may or may not have taken effect
}

func (w *cacheWorld) checkLinearizable(res *RunResult, kind string) {
	keys := map[string]bool{}
	w.mu.Lock()
	for _, h := range w.history {
		keys[h.key] = true
	}
	w.mu.Unlock()
	for _, k := range sortedKeys(keys) {
		w.checkLinearizableKey(res, kind, k)
	}
}

func sortedKeys(m map[string]bool) []string {
	var out []string
	for k := range m {
		out = append(out, k)
	}
	sort.Strings(out)
	return out
}

// checkLinearizableKey: the entries of a cache are independent registers.
func (w *cacheWorld) checkLinearizableKey(res *RunResult, kind, key string) {
	var ops []porcupine.Operation
	w.mu.Lock()
	const inf = int64(1) << 40
	for _, h := range w.history {
		if h.key != key {
			continue
		}
		switch h.kind {
		case "store":
			ret := h.ret
			failed := h.err != nil || h.crashed || ret == 0
			if ret == 0 {
				ret = inf
			}
			ops = append(ops, porcupine.Operation{ClientId: h.client, Input: regInput{store: true, version: h.version, failed: failed}, Call: h.call, Output: 0, Return: ret})
		case "fetch":
			if h.ret != 0 && h.err == nil && h.version != 0 {
				ops = append(ops, porcupine.Operation{ClientId: h.client, Input: regInput{}, Call: h.call, Output: h.version, Return: h.ret})
			}
		}
	}
	w.mu.Unlock()
	if len(ops) < 2 {
		return
	}
	model := porcupine.NondeterministicModel{
		Init: func() []interface{} { return []interface{}{0} },
		Step: func(state, input, output interface{}) []interface{} {
			in := input.(regInput)
			cur := state.(int)
			if in.store {
				if in.failed {
					return []interface{}{cur, in.version}
				}
				return []interface{}{in.version}
			}
			if output.(int) == cur {
				return []interface{}{cur}
			}
			return nil
		},
		Equal: func(a, b interface{}) bool { return a.(int) == b.(int) },
	}
	r := porcupine.CheckOperationsTimeout(model.ToModel(), ops, 30*time.Second)
	switch r {
	case porcupine.Illegal:
		var desc []string
		for _, o := range ops {
			in := o.Input.(regInput)
			if in.store {
				desc = append(desc, fmt.Sprintf("[%d,%d] c%d Store(v%d) failed=%v", o.Call, o.Return, o.ClientId, in.version, in.failed))
			} else {
				desc = append(desc, fmt.Sprintf("[%d,%d] c%d Fetch=v%d", o.Call, o.Return, o.ClientId, o.Output))
			}
		}
		res.Violate("not-linearizable", "store-fetch-history-not-linearizable|"+kind, "the history of Stores and successful Fetches is not linearizable as a register: "+strings.Join(desc, "; "))
	case porcupine.Unknown:
		res.Probe("porcupine-inconclusive")
	default:
		res.Probe("porcupine-ok")
	}
}

// ---- faults

const (
	fvStopBefore = iota // process stops before operation k takes effect
	fvStopAfter         // operation k applied, never acknowledged, process stops
	fvTornWrite         // write k applied as a prefix, process stops
	fvIOError           // operation k returns an error instead of its effect
	fvLostAck           // operation k applied but an error is returned
	fvShortWrite        // write k accepts only a prefix, no error
	fvCount
)

var fvNames = []string{"stop-before-op", "stop-after-op", "torn-write+stop", "io-error", "lost-acknowledgement", "short-write"}

var errInjectedIO = &os.PathError{Op: "io", Path: "injected", Err: syscall.EIO}

// armFault installs the fault for client victim at its operation index k (counted from arm time).
func (w *cacheWorld) armFault(victim *cacheClient, variant, k int, fired *bool) {
	count := 0
	prevDecide := w.sim.Decide
	prevEffect := w.sim.OnEffect
	w.sim.Decide = func(op *Op) *Fault {
		if prevDecide != nil {
			if f := prevDecide(op); f != nil {
				return f
			}
		}
		if op.Client != victim.id || victim.dead || *fired {
			return nil
		}
		idx := count
		count++
		if idx < k {
			return nil
		}
		// idx >= k: the fault fires at the first operation at or after k to which it applies
		isWrite := op.Name == "write" && op.Len >= 2
		switch variant {
		case fvStopBefore:
			*fired = true
			w.rc.Res.Fault(fvNames[variant])
			w.kill(victim)
			return &Fault{Err: w.sim.DeadErr}
		case fvTornWrite:
			if !isWrite {
				return nil
			}
			*fired = true
			w.rc.Res.Fault(fvNames[variant])
			w.kill(victim)
			return &Fault{Err: w.sim.DeadErr, Apply: true, Short: 1 + op.Len/2}
		case fvIOError:
			*fired = true
			w.rc.Res.Fault(fvNames[variant])
			return &Fault{Err: errInjectedIO}
		case fvLostAck:
			if !op.Mutating {
				return nil
			}
			*fired = true
			w.rc.Res.Fault(fvNames[variant])
			return &Fault{Err: errInjectedIO, Apply: true}
		case fvShortWrite:
			if !isWrite {
				return nil
			}
			*fired = true
			w.rc.Res.Fault(fvNames[variant])
			return &Fault{Short: op.Len / 2}
		}
		return nil
	}
	ecount := 0
	w.sim.OnEffect = func(op *Op) {
		if prevEffect != nil {
			prevEffect(op)
		}
		if variant != fvStopAfter || op.Client != victim.id || victim.dead || *fired {
			return
		}
		idx := ecount
		ecount++
		if idx == k {
			*fired = true
			w.rc.Res.Fault(fvNames[variant])
			w.kill(victim)
		}
	}
}

func enumC16(tier string) [][]uint32 {
	var out [][]uint32
	chunks := 16
	for kind := uint32(0); kind < 2; kind++ {
		for variant := uint32(0); variant < fvCount; variant++ {
			for chunk := 0; chunk < chunks; chunk++ {
				// leading 1 selects the enumerated scenario
				out = append(out, []uint32{1, kind, variant, uint32(chunk), 0})
				if tier == "thorough" {
					out = append(out, []uint32{1, kind, variant, uint32(chunk), 1}, []uint32{1, kind, variant, uint32(chunk), 2})
				}
			}
		}
	}
	return out
}

// sizes of the files of a version; -1: a file that is itself a zip archive
var c16Shapes = [][]int{{300, 0, 45000}, {70000, 12, 5}, {1, 33000, 2000, 800}, {9000, 9000}, {40, 80000, 0, 7, 1200}, {500, -1, 2000}}

func runC16(rc *RunCtx) {
	if rc.Ch.Intn("enum", 2) == 1 {
		runC16Enumerated(rc)
		return
	}
	runC16Concurrent(rc)
}

// one execution of the enumerated scenario; k<0: fault-free (returns the number of operations of the second Store)
func c16Scenario(rc *RunCtx, ch *Chooser, mutable bool, variant, k int, keepTrace bool, shapes int) (ops int, res2 *RunResult) {
	res := rc.Res
	kindName := map[bool]string{true: "mutable", false: "immutable"}[mutable]
	var sim *Sim
	var w *cacheWorld
	dl := Bubble(rc.T, func() {
		sim = NewSim(ch)
		sim.Trace.Keep = keepTrace
		sim.MaxSteps = 200000
		sim.Latencies = []time.Duration{50 * time.Microsecond, 200 * time.Microsecond}
		w = newCacheWorld(rc, sim, mutable)
		c1, c2, c3 := w.addClient(1), w.addClient(2), w.addClient(3)
		sim.Go("scenario", func() {
			if _, err := w.store(c1, c16Shapes[shapes%len(c16Shapes)]); err != nil {
				res.Infra = fmt.Sprintf("fault-free initial Store failed: %v", err)
				return
			}
			before := c2.seam.OpCount()
			fired := false
			if k >= 0 {
				w.armFault(c2, variant, k, &fired)
			}
			op2, err2 := w.store(c2, c16Shapes[(shapes+1)%len(c16Shapes)])
			ops = c2.seam.OpCount() - before
			if k >= 0 && !fired {
				res.Probe("fault-point-beyond-operation")
			}
			// recovery: no further faults; wait out the stale-lock window, clean, fetch
			time.Sleep(3*50*time.Millisecond + 10*time.Millisecond)
			sim.Yield(3, "recovery")
			_ = w.clean(c3)
			opF, errF := w.fetch(c3)
			storeOK := !op2.crashed && err2 == nil
			what := fmt.Sprintf("%s cache, Store(v2) with %s at its backend operation %d of %d", kindName, fvNames[variant], k, ops)
			if k < 0 {
				what = kindName + " cache, fault-free"
			}
			switch {
			case storeOK && (errF != nil || opF.version != op2.version):
				res.Violate("successful-store-not-visible", "store-reported-success-but-fetch-does-not-return-it|"+kindName+"|"+map[bool]string{true: fvNames[variant], false: "fault-free"}[k >= 0],
					fmt.Sprintf("%s: Store returned nil; after recovery Fetch returned err=%v version=v%d (expected v%d)", what, errF, opF.version, op2.version))
			case errF == nil && opF.version != 1 && opF.version != op2.version:
				// already reported by fetch() as a bad tree
			}
			if errF != nil {
				res.Probe("fetch-after-interrupted-store-failed")
			} else if opF.version == 1 {
				res.Probe("fetch-after-interrupted-store-gave-earlier-version")
			} else {
				res.Probe("fetch-after-interrupted-store-gave-later-version")
			}
		})
		sim.Run(w.cancelAll)
	})
	if sim == nil {
		res.Infra = "bubble did not start: " + dl
		return
	}
	if dl != "" {
		res.Violate("blocked", "cache-operation-blocked|"+kindName, fmt.Sprintf("%s cache, variant %s k=%d: %s", kindName, fvNames[variant], k, dl))
	}
	if sim.Outcome == "stuck" || sim.Outcome == "budget" {
		res.Violate("blocked", "cache-operation-did-not-finish|"+kindName+"|"+sim.Outcome, fmt.Sprintf("%s cache, variant %s k=%d: run ended with outcome %s", kindName, fvNames[variant], k, sim.Outcome))
	}
	for _, p := range sim.Panics {
		res.Violate("panic", "panic|"+firstLine(p), p)
	}
	res.Steps += sim.Steps
	res.SimNanos += int64(sim.End)
	tr := &RunResult{Digest: sim.Trace.Digest()}
	if keepTrace {
		tr.Trace = sim.Trace.Lines
	}
	return ops, tr
}

func runC16Enumerated(rc *RunCtx) {
	ch := rc.Ch
	res := rc.Res
	mutable := ch.Intn("kind", 2) == 0
	variant := ch.Intn("variant", fvCount)
	chunk := ch.Intn("chunk", 16)
	shapes := ch.Intn("shapes", 3) // which pair of version trees
	res.Config = fmt.Sprintf("enumerated kind=%s variant=%s chunk=%d/16 shapes=%d", map[bool]string{true: "mutable", false: "immutable"}[mutable], fvNames[variant], chunk, shapes)
	res.NonTrivial = true
	n, tr := c16Scenario(rc, NewReplayChooser(nil), mutable, variant, -1, false, shapes)
	if res.Infra != "" || len(res.Violations) > 0 || tr == nil {
		res.Digest = hashStrings(res.Config)
		return
	}
	step := 1
	lo, hi := n*chunk/16, n*(chunk+1)/16
	digest := tr.Digest
	for k := lo; k < hi; k += step {
		_, t := c16Scenario(rc, NewReplayChooser(nil), mutable, variant, k, false, shapes)
		if t != nil {
			digest = digest*1099511628211 ^ t.Digest
		}
		res.ProbeN("executions", 1)
		if res.Infra != "" {
			return
		}
	}
	res.Digest = digest
	if rc.KeepTrace {
		res.Trace = []string{res.Config, fmt.Sprintf("the faulted Store has %d backend operations; fault points %d..%d step %d executed", n, lo, hi-1, step)}
	}
}

func runC16Concurrent(rc *RunCtx) {
	ch := rc.Ch
	res := rc.Res
	mutable := ch.Intn("kind", 2) == 0
	nClients := 2 + ch.Intn("clients", 3)
	faulty := ch.Pick("faults", 3, 2) == 1
	slowDisk := ch.Pick("slowdisk", 3, 1) == 1
	contended := mutable && !faulty && ch.Intn("contended", 2) == 1
	if contended {
		slowDisk = true
		res.Probe("contended-slow-store-scenario")
	}
	// a second cache entry: some clients work on another key of the same cache (shared store, shared temporary directory);
	// entries are independent, nothing of one may show up in the other
	twoKeys := !contended && ch.Intn("twokeys", 4) == 0
	crossFetch := twoKeys && !faulty && ch.Intn("crossfetch", 2) == 0
	cleaner := !contended && !crossFetch && ch.Pick("cleaner", 2, 1) == 1
	if cleaner {
		res.Probe("housekeeping-client-scenario")
	}
	kindName := map[bool]string{true: "mutable", false: "immutable"}[mutable]
	res.Config = fmt.Sprintf("concurrent kind=%s clients=%d faults=%v slowDisk=%v contendedSlowStore=%v housekeepingClient=%v twoEntries=%v", kindName, nClients, faulty, slowDisk, contended, cleaner, twoKeys)
	var sim *Sim
	var w *cacheWorld
	overlap := false
	dl := Bubble(rc.T, func() {
		sim = NewSim(ch)
		sim.Trace.Keep = rc.KeepTrace
		sim.MaxSteps = 120000
		sim.Deadline = time.Now().Add(120 * time.Second)
		sim.Latencies = []time.Duration{50 * time.Microsecond, 200 * time.Microsecond, time.Millisecond}
		if slowDisk {
			// a slow shared store: one Store or Fetch then holds the entry lock for several heartbeat periods
			sim.Latencies = []time.Duration{time.Millisecond, 3 * time.Millisecond}
		}
		w = newCacheWorld(rc, sim, mutable)
		var clients []*cacheClient
		for i := 1; i <= nClients; i++ {
			cl := w.addClient(i)
			if twoKeys && i%2 == 0 {
				cl.key = "K2"
			}
			clients = append(clients, cl)
		}
		if twoKeys {
			res.Probe("two-cache-entries-scenario")
		}
		verifier := w.addClient(9)
		type step struct {
			act   int
			shape int
			pause time.Duration
			delay time.Duration
			// barrier: after this step the client waits until every client has done its barrier step
			barrier bool
		}
		scripts := make([][]step, nClients)
		for i := range scripts {
			if contended {
				// a slow Store by client 1 while the others, some heartbeat periods later, clean the entry and store
				if i == 0 {
					scripts[i] = []step{{act: 0, shape: ch.Intn("shape", len(c16Shapes))}}
				} else {
					scripts[i] = []step{{act: 2, delay: time.Duration(20+ch.Intn("delay", 400)) * time.Millisecond}, {act: 3, shape: ch.Intn("shape", len(c16Shapes))}}
				}
				continue
			}
			if crossFetch {
				// both entries are filled first (clients 1 and 2), then everybody fetches the entry it works on, at once
				if i < 2 {
					scripts[i] = append(scripts[i], step{act: 0, shape: ch.Intn("shape", len(c16Shapes)), barrier: true})
				} else {
					scripts[i] = append(scripts[i], step{act: 4, barrier: true})
				}
				for j, n := 0, 1+ch.Intn("nfetch", 3); j < n; j++ {
					scripts[i] = append(scripts[i], step{act: 1})
				}
				continue
			}
			if cleaner && i == nClients-1 {
				// a housekeeping client: it only cleans the entry, again and again, for as long as the others work
				for j := 0; j < 60; j++ {
					scripts[i] = append(scripts[i], step{act: 2, pause: []time.Duration{time.Millisecond, 3 * time.Millisecond, 9 * time.Millisecond}[ch.Intn("cleanpause", 3)]})
				}
				continue
			}
			n := 1 + ch.Intn("nops", 3)
			for j := 0; j < n; j++ {
				scripts[i] = append(scripts[i], step{act: ch.Pick("act", 4, 4, 2, 2), shape: ch.Intn("shape", len(c16Shapes)), pause: []time.Duration{0, 3 * time.Millisecond, 60 * time.Millisecond}[ch.Intn("pause", 3)]})
			}
		}
		if contended {
			// one operation of the slow Store on the shared store takes seconds (its heartbeat, a separate task, goes on)
			target, seen := ch.Intn("slowop", 48), 0
			slow := time.Duration(1500+ch.Intn("slowfor", 3000)) * time.Millisecond
			sim.Decide = func(op *Op) *Fault {
				if op.Client != 1 || !strings.HasPrefix(op.Path, "/remote") || strings.Contains(op.Path, "lockfile-") {
					return nil
				}
				seen++
				if seen-1 == target {
					res.Fault("slow-operation-while-holding-entry-lock")
					return &Fault{Latency: slow}
				}
				return nil
			}
		}
		fired := false
		if faulty {
			victim := clients[ch.Intn("victim", nClients)]
			w.armFault(victim, ch.Intn("variant", fvCount), ch.Intn("faultk", 1500), &fired)
		}
		var wg, barrier sync.WaitGroup
		if crossFetch {
			barrier.Add(nClients)
			res.Probe("cross-entry-fetch-scenario")
		}
		inflight := 0
		workersDone := 0
		for i, cl := range clients {
			cl, script := cl, scripts[i]
			wg.Add(1)
			sim.Go(fmt.Sprintf("client%d", cl.id), func() {
				defer wg.Done()
				// tasks start together: let the scheduler, not the Go runtime, decide who goes first
				sim.Yield(cl.id, "start")
				if !(cleaner && cl.id == nClients) {
					defer func() { workersDone++ }()
				}
				for _, st := range script {
					if cl.dead {
						return
					}
					if cleaner && cl.id == nClients && workersDone >= nClients-1 {
						return // nobody left to keep house for
					}
					if st.delay > 0 {
						time.Sleep(st.delay)
						sim.Yield(cl.id, "delayed-start")
					}
					if inflight > 0 {
						overlap = true
					}
					inflight++
					switch st.act {
					case 0:
						_, _ = w.store(cl, c16Shapes[st.shape])
					case 1:
						_, _ = w.fetch(cl)
					case 2:
						_ = w.clean(cl)
					case 4:
						// nothing to do before the barrier
					default:
						// what a client does about a stale entry lock: clean the entry, then try again
						_, err := w.store(cl, c16Shapes[st.shape])
						if commonerrors.Any(err, commonerrors.ErrStaleLock) && !cl.dead {
							res.Probe("store-retried-after-stale-lock")
							_ = w.clean(cl)
							_, _ = w.store(cl, c16Shapes[st.shape])
						}
					}
					inflight--
					if st.barrier {
						barrier.Done()
						barrier.Wait()
						sim.Yield(cl.id, "after-barrier")
					}
					if st.pause > 0 {
						time.Sleep(st.pause)
					}
					sim.Yield(cl.id, "between-ops")
				}
			})
		}
		sim.Go("verifier", func() {
			wg.Wait()
			// quiescent suffix: nothing in flight, no further faults
			fired = true
			time.Sleep(3*50*time.Millisecond + 10*time.Millisecond)
			sim.Yield(9, "quiescent")
			vkeys := []string{cacheKey}
			if twoKeys {
				vkeys = append(vkeys, "K2")
			}
			for _, key := range vkeys {
				verifier.key = key
				_ = w.clean(verifier)
				opF, errF := w.fetch(verifier)
				// the last Store invoked: if it reported success and no other Store overlapped or followed it, it must be what is fetched
				w.mu.Lock()
				var last *cacheOp
				for _, h := range w.history {
					if h.key != key {
						continue
					}
					if h.kind == "store" && (last == nil || h.call > last.call) {
						last = h
					}
				}
				clean := last != nil && last.ret != 0 && last.err == nil
				if clean {
					for _, h := range w.history {
						if h.key != key {
							continue
						}
						if h.kind == "store" && h != last && (h.ret == 0 || h.ret > last.call) {
							clean = false
						}
					}
				}
				w.mu.Unlock()
				// overlapping Stores: when every Store that failed or was cut short was over before the last successful Store
				// began, the entry is owed to the successful Stores alone - with nothing in flight the Fetch must succeed and
				// return the version of that Store or of a successful Store that overlapped it
				w.mu.Lock()
				var lastOK *cacheOp
				for _, h := range w.history {
					if h.key != key {
						continue
					}
					if h.kind == "store" && h.ret != 0 && h.err == nil && !h.crashed && (lastOK == nil || h.call > lastOK.call) {
						lastOK = h
					}
				}
				owed := lastOK != nil
				cands := map[int]bool{}
				if owed {
					for _, h := range w.history {
						if h.key != key {
							continue
						}
						if h.kind != "store" {
							continue
						}
						okStore := h.ret != 0 && h.err == nil && !h.crashed
						if !okStore && (h.ret == 0 || h.ret > lastOK.call) {
							owed = false
						}
						if okStore && (h == lastOK || h.ret > lastOK.call) {
							cands[h.version] = true
						}
					}
				}
				w.mu.Unlock()
				if owed && !clean && (errF != nil || !cands[opF.version]) {
					res.Violate("successful-store-not-visible", "quiescent-fetch-returns-no-successful-overlapping-store|"+kindName,
						fmt.Sprintf("%s: %d overlapping Stores reported success (the last to begin: v%d by client %d) and every failed Store was over before it began; with nothing in flight Fetch returned err=%v version=v%d", res.Config, len(cands), lastOK.version, lastOK.client, errF, opF.version))
				}
				if clean && (errF != nil || opF.version != last.version) {
					res.Violate("successful-store-not-visible", "quiescent-fetch-does-not-return-last-successful-store|"+kindName,
						fmt.Sprintf("%s: Store(v%d) by client %d reported success, no other Store overlapped or followed it; with nothing in flight Fetch returned err=%v version=v%d", res.Config, last.version, last.client, errF, opF.version))
				}
			}
		})
		sim.Run(w.cancelAll)
	})
	if sim == nil {
		res.Infra = "bubble did not start: " + dl
		return
	}
	res.Digest = sim.Trace.Digest()
	res.Steps = sim.Steps
	res.SimNanos = int64(sim.End)
	res.NonTrivial = overlap || len(res.Faults) > 0
	if sim.Outcome != "" {
		res.Outcome = sim.Outcome
	}
	if dl != "" {
		res.Outcome = "bubble-deadlock"
	}
	for _, p := range sim.Panics {
		res.Violate("panic", "panic|"+firstLine(p), p)
	}
	if sim.Outcome == "" && dl == "" {
		w.checkLinearizable(res, kindName)
	}
	if rc.KeepTrace {
		res.Trace = sim.Trace.Lines
	}
}

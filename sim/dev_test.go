package sim

import (
	"fmt"
	"os"
	"strconv"
	"strings"
	"testing"
	"time"
)

// TestDev is a development aid: VERIF_DEV="C01:500[:base]" runs that many
// seeds in-process and prints a summary.
func TestDev(t *testing.T) {
	spec := os.Getenv("VERIF_DEV")
	if spec == "" {
		t.Skip()
	}
	parts := strings.Split(spec, ":")
	n, _ := strconv.Atoi(parts[1])
	base := uint64(1)
	if len(parts) > 2 {
		b, _ := strconv.Atoi(parts[2])
		base = uint64(b)
	}
	tier := "quick"
	if v := os.Getenv("VERIF_DEV_TIER"); v != "" {
		tier = v
	}
	ws := &WorkerSpec{Prop: parts[0], Mode: "explore", Tier: tier, BaseSeed: base, Stride: 1, MaxRuns: uint64(n), ReplayDir: os.Getenv("VERIF_DEV_REPLAYS")}
	if v := os.Getenv("VERIF_DEV_START"); v != "" {
		x, _ := strconv.Atoi(v)
		ws.Start = uint64(x)
	}
	if v := os.Getenv("VERIF_DEV_STRIDE"); v != "" {
		x, _ := strconv.Atoi(v)
		ws.Stride = uint64(x)
	}
	if os.Getenv("VERIF_DEV_VERBOSE") != "" {
		devVerbose = true
	}
	start := time.Now()
	out := RunWorker(t, ws)
	fmt.Printf("runs=%d enumerated=%d/%d nontrivial=%d distinct=%d steps=%d sim=%v wall=%v selfcheck=%v\n", out.Runs, out.Enumerated, out.EnumTotal, out.NonTrivial, len(out.NTDigests), out.Steps, time.Duration(out.SimNanos), time.Since(start), out.SelfCheck)
	fmt.Printf("faults=%v\nprobes=%v\noutcomes=%v\ninfra=%v\n", out.Faults, out.Probes, out.Outcomes, out.Infra)
	for sig, v := range out.Violations {
		fmt.Printf("VIOL x%d idx=%d %s\n   %s\n   replay=%s\n", v.Count, v.Index, sig, firstLine(v.Detail), v.Replay)
	}
	if len(out.Samples) > 0 {
		fmt.Printf("sample: %s\n", out.Samples[0].Config)
		for _, l := range out.Samples[0].Trace {
			fmt.Println("   ", l)
		}
	}
}

// TestDiff: VERIF_DIFF="C01:<index>:<base>" executes the run twice (fresh, then
// from its recorded choices) with traces and prints the first divergence.
func TestDiff(t *testing.T) {
	spec := os.Getenv("VERIF_DIFF")
	if spec == "" {
		t.Skip()
	}
	parts := strings.Split(spec, ":")
	lohi := strings.Split(parts[1], "-")
	idx, _ := strconv.Atoi(lohi[0])
	hi := idx
	if len(lohi) > 1 {
		hi, _ = strconv.Atoi(lohi[1])
	}
	base, _ := strconv.Atoi(parts[2])
	p := Props[parts[0]]
	var enum [][]uint32
	if p.Enumerate != nil {
		enum = p.Enumerate("quick")
	}
	reps := 20
	if hi > idx {
		reps = 2
	}
	for ; idx <= hi; idx++ {
		for rep := 0; rep < reps; rep++ {
			ch, _ := chooserFor(p, enum, uint64(base), uint64(idx))
			r1 := ExecRun(t, p, ch, true, "quick")
			r2 := ExecRun(t, p, NewReplayChooser(ch.Rec), true, "quick")
			if r1.Digest == r2.Digest {
				continue
			}
			fmt.Printf("index %d rep %d: digests differ %x %x (lens %d %d)\n", idx, rep, r1.Digest, r2.Digest, len(r1.Trace), len(r2.Trace))
			for i := 0; i < len(r1.Trace) && i < len(r2.Trace); i++ {
				if r1.Trace[i] != r2.Trace[i] {
					lo := max(0, i-12)
					for j := lo; j < min(i+6, len(r1.Trace), len(r2.Trace)); j++ {
						mark := "  "
						if r1.Trace[j] != r2.Trace[j] {
							mark = "!!"
						}
						fmt.Printf("%s %-70s | %s\n", mark, r1.Trace[j], r2.Trace[j])
					}
					break
				}
			}
			return
		}
	}
	fmt.Println("no divergence")
}

package sim

import (
	"context"
	"errors"
	"fmt"
	"io"
	"math"
	"net/http"
	"strings"
	"time"

	"github.com/go-logr/logr"

	"github.com/ARM-software/golang-utils/utils/commonerrors"
	httputils "github.com/ARM-software/golang-utils/utils/http"
	"github.com/ARM-software/golang-utils/utils/retry"
)

func init() {
	Register(&Prop{
		ID:    "C14",
		Run:   runC14,
		Level: "exploration",
		Rule: "one run = (a) retry.RetryIf / RetryOnError inside a synctest bubble with a scripted sequence of attempt outcomes (success, retriable error, non-retriable error) and a context cancelled or expiring inside attempt j or during the wait after it, policy drawn from the swarm (enabled/disabled, 1..8 attempts, 0<=min<=max up to hours, fixed/linear/exponential); " +
			"(b) the retryable HTTP client over an in-bubble RoundTripper serving scripted responses (status x Retry-After seconds/date/garbage, transport errors), request instants on the fake clock; " +
			"(c) complement, plain input sampling of a pure function: the wait policies' Apply() with attempt numbers up to 2^31 and Retry-After values up to 2^63; " +
			"non-trivial = at least two attempts were made or a context ended mid-way (a, b), boundary arguments (c); distinct = distinct (policy, script, observed instants) digest",
		Real:        []string{"utils/retry retry.go (RetryIf, RetryOnError)", "utils/http retry_policy.go (constant / linear / exponential wait policies, Retry-After parsing), retryable_client.go", "avast/retry-go", "hashicorp/go-retryablehttp (request loop, timers)"},
		Stub:        []string{"operation outcomes: script", "network: in-bubble http.RoundTripper (no sockets)", "time: testing/synctest fake clock (waits of hours cost nothing; Retry-After dates are evaluated against it)"},
		Assumptions: []string{"built with go1.26.8 (testing/synctest)", "part (c) is input sampling of a pure function and is reported as such; it complements the simulated runs for argument ranges no client run can reach"},
	})
}

var errRetriable = errors.New("retriable failure")
var errFatal = errors.New("non retriable failure")

func runC14(rc *RunCtx) {
	switch rc.Ch.Pick("part", 4, 4, 2) {
	case 0:
		runC14Retry(rc)
	case 1:
		runC14HTTP(rc)
	default:
		runC14Apply(rc)
	}
}

func c14Policy(ch *Chooser) (*retry.RetryPolicyConfiguration, string) {
	durs := []time.Duration{0, time.Millisecond, 100 * time.Millisecond, 2 * time.Second, time.Minute, time.Hour}
	a, b := ch.Intn("min", len(durs)), ch.Intn("max", len(durs))
	if a > b {
		a, b = b, a
	}
	p := &retry.RetryPolicyConfiguration{Enabled: ch.Pick("enabled", 1, 6) == 1, RetryMax: 1 + ch.Intn("attempts", 8), RetryWaitMin: durs[a], RetryWaitMax: durs[b]}
	kind := "constant"
	switch ch.Intn("backoff", 3) {
	case 1:
		p.BackOffEnabled = true
		kind = "exponential"
	case 2:
		p.BackOffEnabled, p.LinearBackOffEnabled = true, true
		kind = "linear"
	}
	p.RetryAfterDisabled = ch.Intn("retryafterdisabled", 2) == 1
	return p, kind
}

// attemptErr marks the error returned by one particular attempt.
type attemptErr struct{ i int }

func (a attemptErr) Error() string { return fmt.Sprintf("attempt %d", a.i) }

func runC14Retry(rc *RunCtx) {
	ch := rc.Ch
	res := rc.Res
	p, kind := c14Policy(ch)
	useOnError := ch.Intn("api", 2) == 1
	n := 1 + ch.Intn("scriptlen", 10)
	script := make([]int, n) // 0 success, 1 retriable, 2 fatal
	inner := make([]bool, n) // the retriable error of this attempt is a nested operation's own deadline error
	for i := range script {
		script[i] = ch.Pick("outcome", 2, 6, 1)
		inner[i] = ch.Pick("innerdeadline", 4, 1) == 1
	}
	ctxMode := ch.Pick("ctx", 5, 1, 2, 2, 1) // 0 alive, 1 cancelled before, 2 cancelled inside attempt j, 3 cancelled 1ns into the wait after attempt j, 4 deadline
	j := ch.Intn("j", 8)
	deadline := time.Duration(1+ch.Intn("deadline", 5000)) * time.Millisecond
	res.Config = fmt.Sprintf("part=retry api=%v policy={enabled=%v attempts=%d min=%v max=%v %s} script=%v innerDeadlineErrors=%v ctx=%d j=%d deadline=%v", useOnError, p.Enabled, p.RetryMax, p.RetryWaitMin, p.RetryWaitMax, kind, script, inner, ctxMode, j, deadline)
	type inv struct {
		at      time.Duration
		ctxDone bool
	}
	var invs []inv
	var runErr error
	var endAt time.Duration
	dl := Bubble(rc.T, func() {
		start := time.Now()
		ctx, cancel := context.WithCancel(context.Background())
		defer cancel()
		if ctxMode == 4 {
			var c2 context.CancelFunc
			ctx, c2 = context.WithTimeout(ctx, deadline+1) // +1ns: never ties with a round wait
			defer c2()
		}
		if ctxMode == 1 {
			cancel()
		}
		fn := func() error {
			i := len(invs)
			invs = append(invs, inv{at: time.Since(start), ctxDone: ctx.Err() != nil})
			out := 1
			if i < len(script) {
				out = script[i]
			}
			if ctxMode == 2 && i == j {
				cancel()
			}
			if ctxMode == 3 && i == j {
				time.AfterFunc(1, cancel)
			}
			// every attempt's error is distinguishable: only the last one may come back
			switch out {
			case 0:
				return nil
			case 1:
				if i < len(inner) && inner[i] {
					return fmt.Errorf("%w: nested operation: %w (%w)", errRetriable, context.DeadlineExceeded, attemptErr{i})
				}
				return fmt.Errorf("%w (%w)", errRetriable, attemptErr{i})
			}
			return fmt.Errorf("%w (%w)", errFatal, attemptErr{i})
		}
		if useOnError {
			runErr = retry.RetryOnError(ctx, logr.Discard(), p, fn, "retrying", errRetriable)
		} else {
			runErr = retry.RetryIf(ctx, logr.Discard(), p, fn, "retrying", func(err error) bool { return errors.Is(err, errRetriable) })
		}
		endAt = time.Since(start)
	})
	res.Steps = len(invs)
	res.SimNanos = int64(endAt)
	res.NonTrivial = len(invs) >= 2 || ctxMode >= 2
	res.Digest = hashStrings(res.Config, fmt.Sprint(invs), fmt.Sprint(runErr), fmt.Sprint(endAt))
	if rc.KeepTrace {
		res.Trace = []string{res.Config, fmt.Sprintf("invocations=%v err=%v end=%v", invs, runErr, endAt)}
	}
	if dl != "" {
		res.Violate("blocked", "retry|blocked", res.Config+": "+dl)
		return
	}
	viol := func(sig, msg string) {
		res.Violate("retry", "retry|"+sig, fmt.Sprintf("%s: %s; invocations=%v err=%v", res.Config, msg, invs, runErr))
	}
	if !p.Enabled {
		if len(invs) != 1 {
			viol("disabled-policy-attempts", fmt.Sprintf("disabled policy: %d attempts", len(invs)))
		}
		return
	}
	// bounded, at least once unless the context was done at the call
	if ctxMode == 1 {
		if len(invs) != 0 || !commonerrors.Any(runErr, commonerrors.ErrCancelled) {
			viol("context-done-at-call", "context cancelled before the call")
		}
		return
	}
	if len(invs) < 1 || len(invs) > p.RetryMax {
		viol("attempt-count-out-of-bounds", fmt.Sprintf("%d attempts with %d configured", len(invs), p.RetryMax))
		return
	}
	// no attempt once the context is done
	for i, v := range invs {
		if v.ctxDone {
			viol("attempt-after-context-done", fmt.Sprintf("attempt %d started at %v with the context already done", i, v.at))
			return
		}
	}
	// stop conditions from the script
	stopAt := -1 // index of the attempt that must be the last one by the script
	for i := 0; i < len(invs); i++ {
		out := 1
		if i < len(script) {
			out = script[i]
		}
		if out != 1 {
			stopAt = i
			break
		}
	}
	if stopAt >= 0 && len(invs) > stopAt+1 {
		viol("attempt-after-final-outcome", fmt.Sprintf("attempt %d ended the operation (success or non-retriable) but %d attempts were made", stopAt, len(invs)))
		return
	}
	lastOut := 1
	if len(invs)-1 < len(script) {
		lastOut = script[len(invs)-1]
	}
	ctxEnded := (ctxMode == 2 || ctxMode == 3) && j < len(invs) || ctxMode == 4 && endAt >= deadline
	switch {
	case lastOut == 0:
		if runErr != nil {
			viol("success-not-reported", "an attempt succeeded but an error was returned")
		}
	case runErr == nil:
		viol("nil-without-success", "nil returned although no attempt succeeded")
	case lastOut == 2:
		if !errors.Is(runErr, errFatal) {
			viol("last-error-not-returned", "the non-retriable error of the last attempt was not returned")
		}
	default: // last attempt failed retriably
		ctxKind := commonerrors.Any(runErr, commonerrors.ErrCancelled, commonerrors.ErrTimeout)
		switch {
		case ctxEnded && len(invs) < p.RetryMax:
			// stopped by the context: must be reported with the context kind
			want := commonerrors.ErrCancelled
			if ctxMode == 4 {
				want = commonerrors.ErrTimeout
			}
			if !commonerrors.Any(runErr, want) {
				viol("context-kind", fmt.Sprintf("retries stopped by the context but the error is not of kind %v", want))
			}
			// ... and at the instant the context ended (it ended during a wait, or inside the last attempt)
			ended := time.Duration(-1)
			switch ctxMode {
			case 3:
				ended = invs[j].at + 1
			case 4:
				ended = deadline + 1
			}
			if ended >= 0 && endAt != ended {
				viol("context-end-not-prompt", fmt.Sprintf("the context ended at %v during a wait but the call returned at %v", ended, endAt))
			}
		case len(invs) == p.RetryMax:
			if !errors.Is(runErr, errRetriable) && !ctxKind {
				viol("last-error-not-returned", "attempts exhausted but the last error was not returned")
			}
		default:
			viol("stopped-early", fmt.Sprintf("stopped after %d of %d attempts although the last error was retriable and the context alive", len(invs), p.RetryMax))
		}
	}
	// "otherwise the last error": nothing of an earlier attempt's error may be in the result, and a context kind only when
	// the context ended or the last error itself carries one
	if runErr != nil && len(invs) > 0 {
		li := len(invs) - 1
		for i := 0; i < li; i++ {
			if errors.Is(runErr, attemptErr{i}) {
				viol("error-of-earlier-attempt-returned", fmt.Sprintf("the returned error carries the error of attempt %d; the last attempt was %d", i, li))
				break
			}
		}
		lastInner := lastOut == 1 && li < len(inner) && inner[li]
		if !ctxEnded && !lastInner && lastOut != 0 && commonerrors.Any(runErr, commonerrors.ErrCancelled, commonerrors.ErrTimeout) {
			viol("spurious-context-kind", "the context is alive and the last attempt's error carries no context kind, yet the result is of the cancelled / timeout kind")
		}
	}
	// gaps are never negative and respect the minimum
	for i := 1; i < len(invs); i++ {
		gap := invs[i].at - invs[i-1].at
		floor := p.RetryWaitMin
		if p.RetryWaitMax > 0 && p.RetryWaitMax < floor {
			floor = p.RetryWaitMax
		}
		if gap < 0 || gap < floor {
			viol("gap-below-minimum", fmt.Sprintf("gap %v before attempt %d, minimum %v", gap, i, floor))
		}
	}
}

type scriptedResp struct {
	status     int
	retryAfter string // "" none
	transport  bool   // transport error instead of a response
}

type scriptedRT struct {
	start    time.Time
	script   []scriptedResp
	reqAt    []time.Duration
	respAt   []time.Duration
	latency  time.Duration
	afterAbs []time.Time
}

func (rt *scriptedRT) RoundTrip(req *http.Request) (*http.Response, error) {
	i := len(rt.reqAt)
	rt.reqAt = append(rt.reqAt, time.Since(rt.start))
	if rt.latency > 0 {
		time.Sleep(rt.latency)
	}
	rt.respAt = append(rt.respAt, time.Since(rt.start))
	s := scriptedResp{status: 503}
	if i < len(rt.script) {
		s = rt.script[i]
	}
	if s.transport {
		return nil, errors.New("connection reset by peer (scripted)")
	}
	h := http.Header{}
	if s.retryAfter != "" {
		h["Retry-After"] = []string{s.retryAfter}
	}
	return &http.Response{StatusCode: s.status, Status: fmt.Sprintf("%d scripted", s.status), Header: h, Body: io.NopCloser(strings.NewReader("body")), Request: req, ProtoMajor: 1, ProtoMinor: 1}, nil
}

func runC14HTTP(rc *RunCtx) {
	ch := rc.Ch
	res := rc.Res
	p, kind := c14Policy(ch)
	p.Enabled = true
	if p.RetryWaitMax > time.Minute {
		p.RetryWaitMax = time.Minute
	}
	if p.RetryWaitMin > p.RetryWaitMax {
		p.RetryWaitMin = p.RetryWaitMax
	}
	n := 1 + ch.Intn("scriptlen", 9)
	script := make([]scriptedResp, n)
	type hdr struct {
		kind string
		secs int64
		off  time.Duration
	}
	hdrs := make([]hdr, n)
	for i := range script {
		st := []int{200, 503, 429, 500, 404, 502}[ch.Pick("status", 2, 4, 4, 2, 1, 1)]
		script[i] = scriptedResp{status: st, transport: ch.Pick("transport", 9, 1) == 1}
		switch ch.Pick("ra", 4, 3, 1, 1, 1, 1) {
		case 1:
			hdrs[i] = hdr{kind: "secs", secs: int64(ch.Intn("rasecs", 20))}
		case 2:
			hdrs[i] = hdr{kind: "secs", secs: -int64(1 + ch.Intn("raneg", 5))}
		case 3:
			hdrs[i] = hdr{kind: "date", off: time.Duration(1+ch.Intn("radate", 30)) * time.Second}
		case 4:
			hdrs[i] = hdr{kind: "date", off: -time.Duration(1+ch.Intn("radate", 30)) * time.Second}
		case 5:
			hdrs[i] = hdr{kind: "garbage"}
		}
	}
	latency := []time.Duration{0, 3 * time.Millisecond}[ch.Intn("lat", 2)]
	res.Config = fmt.Sprintf("part=http policy={attempts(RetryMax)=%d min=%v max=%v %s retryAfterDisabled=%v} latency=%v", p.RetryMax, p.RetryWaitMin, p.RetryWaitMax, kind, p.RetryAfterDisabled, latency)
	rt := &scriptedRT{script: script, latency: latency}
	var gerr error
	var status int
	var raAbs = make([]time.Time, n)
	dl := Bubble(rc.T, func() {
		rt.start = time.Now()
		// Retry-After values: dates are relative to the (fake) instant the response is produced;
		// they are precomputed relative to the start and fixed up in the oracle with the response instant
		for i := range script {
			switch hdrs[i].kind {
			case "secs":
				script[i].retryAfter = fmt.Sprint(hdrs[i].secs)
			case "date":
				// absolute date: start + off + i hours would drift; use a date relative to start
				raAbs[i] = rt.start.Add(hdrs[i].off + time.Duration(i)*45*time.Second).UTC().Truncate(time.Second)
				script[i].retryAfter = raAbs[i].Format(http.TimeFormat)
			case "garbage":
				script[i].retryAfter = "soon-ish"
			}
		}
		cfg := httputils.DefaultHTTPClientConfiguration()
		cfg.RetryPolicy = *p
		client := httputils.NewConfigurableRetryableClientFromClient(cfg, &http.Client{Transport: rt})
		resp, err := client.Get("http://simulated.invalid/resource")
		gerr = err
		if resp != nil {
			status = resp.StatusCode
			_ = resp.Body.Close()
		}
	})
	var sdesc []string
	for i, s := range script {
		sdesc = append(sdesc, fmt.Sprintf("%d:{%d ra=%q transport=%v}", i, s.status, s.retryAfter, s.transport))
	}
	res.Config += " script=" + strings.Join(sdesc, " ")
	res.Steps = len(rt.reqAt)
	if len(rt.respAt) > 0 {
		res.SimNanos = int64(rt.respAt[len(rt.respAt)-1])
	}
	res.NonTrivial = len(rt.reqAt) >= 2
	res.Digest = hashStrings(res.Config, fmt.Sprint(rt.reqAt), fmt.Sprint(gerr), fmt.Sprint(status))
	if rc.KeepTrace {
		res.Trace = []string{res.Config, fmt.Sprintf("requests at %v, responses at %v, err=%v status=%d", rt.reqAt, rt.respAt, gerr, status)}
	}
	if dl != "" {
		res.Violate("blocked", "http|blocked", res.Config+": "+dl)
		return
	}
	viol := func(sig, msg string) {
		res.Violate("http-retry", "http|"+sig, fmt.Sprintf("%s: %s; requests at %v responses at %v err=%v", res.Config, msg, rt.reqAt, rt.respAt, gerr))
	}
	retriable := func(s scriptedResp) bool {
		return s.transport || s.status == 429 || s.status >= 500 && s.status != 501
	}
	if len(rt.reqAt) < 1 || len(rt.reqAt) > p.RetryMax+1 {
		viol("attempt-count-out-of-bounds", fmt.Sprintf("%d requests with RetryMax=%d", len(rt.reqAt), p.RetryMax))
		return
	}
	for i := 0; i < len(rt.reqAt)-1; i++ {
		s := scriptedResp{status: 503}
		if i < len(script) {
			s = script[i]
		}
		if !retriable(s) {
			viol("request-after-final-response", fmt.Sprintf("response %d (%d) is final but another request followed", i, s.status))
			return
		}
	}
	last := scriptedResp{status: 503}
	if len(rt.reqAt)-1 < len(script) {
		last = script[len(rt.reqAt)-1]
	}
	if retriable(last) && len(rt.reqAt) < p.RetryMax+1 {
		viol("stopped-early", fmt.Sprintf("stopped after %d requests although the last response was retriable", len(rt.reqAt)))
	}
	if !retriable(last) && (gerr != nil || status != last.status) {
		viol("final-response-not-returned", fmt.Sprintf("final response %d not handed to the caller (status=%d)", last.status, status))
	}
	// waits
	var prevWait time.Duration = -1
	for i := 0; i+1 < len(rt.reqAt); i++ {
		wait := rt.reqAt[i+1] - rt.respAt[i]
		s := scriptedResp{status: 503}
		if i < len(script) {
			s = script[i]
		}
		if wait < 0 {
			viol("negative-wait", fmt.Sprintf("wait %v after response %d", wait, i))
			continue
		}
		// server hint?
		hint := time.Duration(-1)
		if !p.RetryAfterDisabled && !s.transport && (s.status == 429 || s.status == 503) && i < len(hdrs) {
			switch hdrs[i].kind {
			case "secs":
				hint = time.Duration(hdrs[i].secs) * time.Second
				if hint < 0 {
					hint = 0
				}
			case "date":
				hint = raAbs[i].Sub(rt.start.Add(rt.respAt[i]))
				if hint < 0 {
					hint = 0
				}
			}
		}
		if hint >= 0 {
			if wait != hint {
				viol("retry-after-not-honoured|"+kind, fmt.Sprintf("wait %v after response %d, Retry-After asks for %v", wait, i, hint))
			}
			prevWait = -1
			continue
		}
		min, max := p.RetryWaitMin, p.RetryWaitMax
		switch kind {
		case "constant":
			if wait != min {
				viol("constant-wait", fmt.Sprintf("wait %v after response %d, want the minimum %v", wait, i, min))
			}
		case "linear":
			lo, hi := time.Duration(i+1)*min, time.Duration(i+1)*max
			if wait < lo || wait > hi {
				viol("linear-wait-out-of-range", fmt.Sprintf("wait %v after response %d (n=%d), range [%v,%v]", wait, i, i, lo, hi))
			}
		case "exponential":
			if wait < min || wait > max {
				viol("exponential-wait-out-of-range", fmt.Sprintf("wait %v after response %d, range [%v,%v]", wait, i, min, max))
			}
			if prevWait >= 0 && wait < prevWait {
				viol("exponential-wait-decreasing", fmt.Sprintf("wait %v after response %d is smaller than the previous %v", wait, i, prevWait))
			}
			prevWait = wait
		}
	}
}

// runC14Apply: input sampling of the pure wait computation for argument ranges no client run reaches.
func runC14Apply(rc *RunCtx) {
	ch := rc.Ch
	res := rc.Res
	p, kind := c14Policy(ch)
	p.Enabled = true
	var attempt int
	switch ch.Pick("attemptclass", 3, 2, 2) {
	case 0:
		attempt = ch.Intn("attempt", 40)
	case 1:
		attempt = 1 << uint(ch.Intn("attemptpow", 32))
		attempt += ch.Intn("attemptoff", 3) - 1
	default:
		attempt = math.MaxInt32 - ch.Intn("attemptmax", 3)
	}
	if attempt < 0 {
		attempt = 0
	}
	status := []int{503, 429, 500, 200}[ch.Intn("status", 4)]
	var ra string
	wantHint := time.Duration(-1)
	switch ch.Pick("ra", 3, 2, 2, 2, 1) {
	case 1:
		v := int64(ch.Intn("small", 100000))
		ra = fmt.Sprint(v)
		wantHint = time.Duration(v) * time.Second
	case 2:
		// around 2^63 / 1e9 and up to 2^63-1: mostly not representable as a Duration
		limit := int64(math.MaxInt64) / int64(time.Second)
		base := []int64{limit, limit + 1, math.MaxInt64, math.MaxInt64 - 1, 1 << 40, 1 << 62, 1 << 55, 18446744074, 2 * limit,
			limit + 1 + int64(ch.Intn("hugeoff", 1<<30)), (int64(1) << uint(34+ch.Intn("hugepow", 29))) + int64(ch.Intn("hugelow", 1000))}[ch.Intn("huge", 11)]
		ra = fmt.Sprint(base)
		if base <= limit {
			wantHint = time.Duration(base) * time.Second
		} else {
			wantHint = -2 // not representable: must not be shorter than the longest representable hint
		}
	case 3:
		ra = fmt.Sprint(-int64(1 + ch.Intn("neg", 1000)))
		wantHint = 0
	case 4:
		ra = []string{"", "abc", "1.5", "9223372036854775808", " 5"}[ch.Intn("garbage", 5)]
	}
	res.Config = fmt.Sprintf("part=apply policy={min=%v max=%v %s retryAfterDisabled=%v} attempt=%d status=%d Retry-After=%q", p.RetryWaitMin, p.RetryWaitMax, kind, p.RetryAfterDisabled, attempt, status, ra)
	res.Digest = hashStrings(res.Config)
	res.NonTrivial = attempt > 30 || wantHint == -2
	res.Steps = 1
	resp := &http.Response{StatusCode: status, Header: http.Header{}}
	if ra != "" {
		resp.Header["Retry-After"] = []string{ra}
	}
	pol := httputils.BackOffPolicyFactory(p)
	wait := pol.Apply(p.RetryWaitMin, p.RetryWaitMax, attempt, resp)
	if rc.KeepTrace {
		res.Trace = []string{res.Config, fmt.Sprintf("wait=%v", wait)}
	}
	viol := func(sig, msg string) {
		res.Violate("apply", "apply|"+sig, fmt.Sprintf("%s: wait=%v (%d ns): %s", res.Config, wait, int64(wait), msg))
	}
	if wait < 0 {
		viol("negative-wait|"+kind, "the computed wait is negative")
		return
	}
	hinted := !p.RetryAfterDisabled && (status == 429 || status == 503) && wantHint != -1
	if hinted {
		if wantHint >= 0 && wait != wantHint {
			viol("retry-after-not-honoured|"+kind, fmt.Sprintf("Retry-After asks for %v", wantHint))
		}
		if floor := time.Duration(math.MaxInt64/int64(time.Second)) * time.Second; wantHint == -2 && wait < floor {
			viol("retry-after-huge-value-shortened|"+kind, fmt.Sprintf("the server asks for %s seconds, more than any representable duration, but the wait is shorter than the longest representable hint (%v)", ra, floor))
		}
		return
	}
	if p.RetryAfterDisabled || !(status == 429 || status == 503) || wantHint == -1 {
		min, max := p.RetryWaitMin, p.RetryWaitMax
		switch kind {
		case "constant":
			if wait != min {
				viol("constant-wait", fmt.Sprintf("want the minimum %v", min))
			}
		case "linear":
			n1 := int64(attempt) + 1
			if max > 0 && n1 <= math.MaxInt64/int64(max) { // bounds representable
				lo, hi := time.Duration(n1)*min, time.Duration(n1)*max
				if wait < lo || wait > hi {
					viol("linear-wait-out-of-range", fmt.Sprintf("range [%v,%v]", lo, hi))
				}
			}
		case "exponential":
			if wait < min || wait > max {
				viol("exponential-wait-out-of-range", fmt.Sprintf("range [%v,%v]", min, max))
			}
			if attempt > 0 {
				prev := pol.Apply(min, max, attempt-1, resp)
				if prev > wait {
					viol("exponential-wait-decreasing", fmt.Sprintf("wait for attempt %d is %v", attempt-1, prev))
				}
			}
		}
	}
}

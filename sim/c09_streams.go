package sim

import (
	"bytes"
	"context"
	"fmt"
	"io"

	"github.com/ARM-software/golang-utils/utils/commonerrors"
	"github.com/ARM-software/golang-utils/utils/filesystem"
	"github.com/ARM-software/golang-utils/utils/safeio"
)

func isCtxKind(err error) bool {
	return commonerrors.Any(err, commonerrors.ErrCancelled, commonerrors.ErrTimeout)
}

// runC09Streams: part A of C09 - the context-aware stream helpers over scripted sources and sinks.
func runC09Streams(rc *RunCtx) {
	ch := rc.Ch
	res := rc.Res
	helper := ch.Intn("helper", 7) // 0 ReadAll 1 ReadAtMost 2 CopyData 3 CopyN 4 WriteString 5 ReadFileWithLimits 6 WriteToFile
	hname := []string{"ReadAll", "ReadAtMost", "CopyDataWithContext", "CopyNWithContext", "WriteString", "ReadFileWithContextAndLimits", "WriteToFile"}[helper]
	length := lengthClass(ch, "len")
	data := genBytes(uint64(1+ch.Intn("seed", 1<<20)), length)
	chunks := chunkPattern(ch, "chunks")
	// bound relative to the length
	var bound int64
	switch ch.Pick("bound", 2, 1, 2, 2, 2, 1) {
	case 0:
		bound = -1 - int64(ch.Intn("neg", 3))
	case 1:
		bound = 0
	case 2:
		bound = int64(length) - int64(1+ch.Intn("below", 3))
	case 3:
		bound = int64(length)
	case 4:
		bound = int64(length) + int64(1+ch.Intn("above", 3))
	default:
		bound = int64(ch.Intn("any", 2*length+2))
	}
	if bound < 0 && helper != 1 && helper != 3 {
		bound = -1
	}
	fault := ch.Pick("fault", 5, 2, 2, 1, 1, 1) // 0 none 1 reader error at k 2 cancel at read j 3 ctx done before 4 writer error at k 5 cancel at write j
	at := 0
	switch fault {
	case 1, 4:
		at = ch.Intn("at", length+1)
	case 2, 5:
		at = ch.Intn("atcall", 10)
	}
	wt := ch.Intn("writerto", 3) == 0
	rf := ch.Intn("readerfrom", 3) == 0
	short := 0
	if ch.Intn("short", 6) == 0 {
		short = 2 + ch.Intn("shortevery", 3)
	}
	eofData := ch.Intn("eofdata", 3) == 0
	res.Config = fmt.Sprintf("part=streams helper=%s len=%d chunks=%s bound=%d fault=%d@%d writerTo=%v readerFrom=%v shortWriteEvery=%d eofWithData=%v", hname, length, describeChunks(chunks), bound, fault, at, wt, rf, short, eofData)
	res.Digest = hashStrings(res.Config)
	res.Steps = 1
	res.NonTrivial = fault != 0 || bound >= 0 || len(chunks) > 0
	ctx, cancel := context.WithCancel(context.Background())
	defer cancel()
	sr := &ScriptedReader{Data: data, Chunks: chunks, ErrAt: -1, CancelAtRead: -1, Ctx: ctx, Cancel: cancel, EOFWithData: eofData}
	sw := &ScriptedWriter{ErrAt: -1, CancelAtWrite: -1, Ctx: ctx, Cancel: cancel, ShortEvery: short}
	switch fault {
	case 1:
		sr.ErrAt, sr.ErrVal = at, scriptedErr(ch, "readerr")
		res.Fault("reader-error")
	case 2:
		sr.CancelAtRead = at
		res.Fault("cancel-at-read")
	case 3:
		cancel()
		res.Fault("context-done-before")
	case 4:
		sw.ErrAt, sw.ErrVal = at, scriptedErr(ch, "writeerr")
		res.Fault("writer-error")
	case 5:
		sw.CancelAtWrite = at
		res.Fault("cancel-at-write")
	}
	var src io.Reader = sr
	if wt {
		src = scriptedReaderWT{sr}
	}
	var dst io.Writer = sw
	if rf {
		dst = scriptedWriterRF{sw}
	}
	viol := func(sig, msg string) {
		res.Violate("stream-helper", "streams|"+hname+"|"+sig, fmt.Sprintf("%s: %s", res.Config, msg))
	}
	readerFaulted := func(need int) bool { // the reader's scripted fault hits before `need` bytes were delivered
		return fault == 1 && at < need
	}
	noReadAfterDone := func() {
		if n := sr.ReadsAfterCtxDone(); n > 0 {
			viol("read-after-context-done", fmt.Sprintf("%d Read calls reached the source after the context was done", n))
		}
	}
	switch helper {
	case 0, 1:
		max := int64(-1)
		var got []byte
		var err error
		if helper == 0 {
			got, err = safeio.ReadAll(ctx, src)
		} else {
			max = bound
			got, err = safeio.ReadAtMost(ctx, src, max, int64(ch.Intn("cap", 3))*512-1)
		}
		want := length
		if max >= 0 && int(max) < want {
			want = int(max)
		}
		if !bytes.HasPrefix(data, got) {
			viol("not-a-prefix", fmt.Sprintf("returned %d bytes that are not a prefix of the source", len(got)))
		}
		if max >= 0 && int64(len(got)) > max {
			viol("more-than-maximum", fmt.Sprintf("returned %d bytes, maximum %d", len(got), max))
		}
		if err == nil && len(got) != want {
			viol("short-result-without-error", fmt.Sprintf("nil error with %d bytes, expected %d", len(got), want))
		}
		if err != nil && fault == 0 && want > 0 {
			viol("spurious-error", fmt.Sprintf("no fault, live context, %d bytes available: %v", want, err))
		}
		if err == nil && readerFaulted(want) {
			viol("reader-error-swallowed", "the source failed before the requested bytes were delivered but nil was returned")
		}
		if fault == 3 && (!isCtxKind(err) || len(sr.Log) != 0) {
			viol("context-done-at-call", fmt.Sprintf("context done at the call: err=%v, %d reads issued", err, len(sr.Log)))
		}
		if fault == 2 && err != nil && !isCtxKind(err) && !commonerrors.Any(err, commonerrors.ErrEmpty) {
			viol("wrong-kind-after-cancel", fmt.Sprintf("context cancelled during the read: %v", err))
		}
		noReadAfterDone()
	case 2, 3:
		n := bound
		var written int64
		var err error
		if helper == 2 {
			written, err = safeio.CopyDataWithContext(ctx, src, dst)
		} else {
			written, err = safeio.CopyNWithContext(ctx, src, dst, n)
		}
		if !bytes.HasPrefix(data, sw.Buf) {
			viol("not-a-prefix", fmt.Sprintf("the sink received %d bytes that are not a prefix of the source", len(sw.Buf)))
		}
		want := length
		if helper == 3 {
			want = int(n)
			if n < 0 {
				want = 0
			}
			if len(sw.Buf) > want {
				viol("more-than-n", fmt.Sprintf("sink received %d bytes, n=%d", len(sw.Buf), n))
			}
		}
		if err == nil {
			if helper == 3 && n >= 0 && int64(length) < n {
				viol("short-copy-without-error", fmt.Sprintf("source has %d bytes, n=%d, nil error", length, n))
			} else if len(sw.Buf) != want || (written != int64(want) && short == 0) {
				viol("short-copy-without-error", fmt.Sprintf("nil error: sink has %d bytes, reported %d, expected %d", len(sw.Buf), written, want))
			}
		} else {
			if helper == 3 && fault == 0 && short == 0 && n >= 0 && int64(length) < n && !commonerrors.Any(err, commonerrors.ErrEOF) {
				viol("short-source-not-eof-kind", fmt.Sprintf("source shorter than n must give the EOF kind: %v", err))
			}
			if fault == 0 && short == 0 && (helper == 2 || int64(length) >= n) {
				viol("spurious-error", fmt.Sprintf("no fault: %v", err))
			}
		}
		if fault == 3 && (!isCtxKind(err) || len(sr.Log) != 0 || len(sw.Log) != 0) {
			viol("context-done-at-call", fmt.Sprintf("context done at the call: err=%v reads=%d writes=%d", err, len(sr.Log), len(sw.Log)))
		}
		if (fault == 2 || fault == 5) && err != nil && short == 0 && !isCtxKind(err) && !commonerrors.Any(err, commonerrors.ErrEOF) {
			viol("wrong-kind-after-cancel", fmt.Sprintf("context cancelled during the copy: %v", err))
		}
		noReadAfterDone()
		// data already read may still be flushed to the sink (the property only forbids new reads and
		// unbounded further work): counted, and bounded by one chunk
		if n := sw.WritesAfterCtxDone(); n > 0 {
			res.ProbeN("writes-after-context-done", n)
			if n > 2 {
				viol("writes-after-context-done", fmt.Sprintf("%d Write calls reached the sink after the context was done", n))
			}
		}
	case 4:
		s := string(data)
		n, err := safeio.WriteString(ctx, dst, s)
		if !bytes.HasPrefix(data, sw.Buf) {
			viol("not-a-prefix", "sink content is not a prefix of the string")
		}
		if err == nil && (len(sw.Buf) != length || (n != length && short == 0)) {
			viol("short-write-without-error", fmt.Sprintf("nil error, sink has %d of %d bytes (n=%d)", len(sw.Buf), length, n))
		}
		if fault == 3 && length > 0 && (!isCtxKind(err) || len(sw.Log) != 0) {
			viol("context-done-at-call", fmt.Sprintf("context done at the call: err=%v writes=%d", err, len(sw.Log)))
		}
		if err != nil && (fault == 0 || fault == 1 || fault == 2) && short == 0 {
			viol("spurious-error", fmt.Sprintf("%v", err))
		}
	case 5:
		disk := NewSimDisk()
		seam := NewSeam(disk.View(1), 1)
		vfs := filesystem.NewVirtualFileSystem(seam, filesystem.Custom, filesystem.IdentityPathConverterFunc)
		_ = disk.View(1).MkdirAll("/d", 0o755)
		if huge := ch.Pick("hugefile", 5, 1); huge == 1 && fault == 0 {
			// a file of a gigabyte or more (sparse on the simulated disk) against a small limit
			size := []int64{1e9 - 1, 1e9, 1e9 + 1, 1 << 31, 1 << 40}[ch.Intn("hugesize", 5)]
			lim := int64(1 + ch.Intn("hugelimit", 1<<20))
			_ = disk.MakeSparse("/d/huge.bin", size)
			got, err := vfs.ReadFileWithContextAndLimits(ctx, "/d/huge.bin", filesystem.NewLimits(lim, 1<<50, 1<<20, 64, false))
			if !commonerrors.Any(err, commonerrors.ErrTooLarge) {
				viol("too-large-not-refused", fmt.Sprintf("file of %d bytes, limit %d: err=%v, %d bytes returned", size, lim, err, len(got)))
			}
			if seam.Balance() != 0 {
				viol("handle-leak", fmt.Sprintf("%d handles left open: %v", seam.Balance(), seam.OpenPaths()))
			}
			break
		}
		f, _ := disk.View(1).Create("/d/file.bin")
		_, _ = f.Write(data)
		_ = f.Close()
		limit := bound
		var lim filesystem.ILimits = filesystem.NoLimits()
		if limit >= 0 {
			lim = filesystem.NewLimits(limit, 1<<40, 1<<20, 64, false)
		}
		if fault == 2 {
			// cancel when the at-th read reaches the backend
			reads := 0
			seam.After = func(op *Op) {
				if op.Name == "read" {
					if reads == at {
						cancel()
					}
					reads++
				}
			}
		}
		got, err := vfs.ReadFileWithContextAndLimits(ctx, "/d/file.bin", lim)
		switch {
		case limit >= 0 && int64(length) > limit:
			if !commonerrors.Any(err, commonerrors.ErrTooLarge) && !isCtxKind(err) {
				viol("too-large-not-refused", fmt.Sprintf("file of %d bytes, limit %d: err=%v, %d bytes returned", length, limit, err, len(got)))
			}
		case err == nil:
			if !bytes.Equal(got, data) {
				viol("wrong-content", fmt.Sprintf("returned %d bytes, file has %d", len(got), length))
			}
		case fault != 2 && fault != 3 && length > 0:
			viol("spurious-error", fmt.Sprintf("%v", err))
		}
		if fault == 3 && !isCtxKind(err) {
			viol("context-done-at-call", fmt.Sprintf("context done at the call: %v", err))
		}
		if seam.Balance() != 0 {
			viol("handle-leak", fmt.Sprintf("%d handles left open: %v", seam.Balance(), seam.OpenPaths()))
		}
	case 6:
		disk := NewSimDisk()
		seam := NewSeam(disk.View(1), 1)
		vfs := filesystem.NewVirtualFileSystem(seam, filesystem.Custom, filesystem.IdentityPathConverterFunc)
		_ = disk.View(1).MkdirAll("/d", 0o755)
		written, err := vfs.WriteToFile(ctx, "/d/out.bin", src, 0o644)
		var content []byte
		for _, e := range disk.Dump("/d") {
			if e.Path == "/out.bin" {
				content = []byte(e.Data)
			}
		}
		if !bytes.HasPrefix(data, content) {
			viol("not-a-prefix", fmt.Sprintf("the file holds %d bytes that are not a prefix of the source", len(content)))
		}
		if err == nil && (len(content) != length || written != int64(length)) {
			viol("short-write-without-error", fmt.Sprintf("nil error: file has %d of %d bytes (reported %d)", len(content), length, written))
		}
		if err != nil && fault == 0 && length > 0 {
			viol("spurious-error", fmt.Sprintf("%v", err))
		}
		if fault == 3 && (!isCtxKind(err) || len(sr.Log) != 0 || seam.OpCount() != 0) {
			viol("context-done-at-call", fmt.Sprintf("context done at the call: err=%v reads=%d backend ops=%d", err, len(sr.Log), seam.OpCount()))
		}
		noReadAfterDone()
		if seam.Balance() != 0 {
			viol("handle-leak", fmt.Sprintf("%d handles left open: %v", seam.Balance(), seam.OpenPaths()))
		}
	}
	if rc.KeepTrace {
		res.Trace = []string{res.Config, fmt.Sprintf("reads=%d writes=%d delivered=%d sink=%d", len(sr.Log), len(sw.Log), sr.Delivered(), len(sw.Buf))}
	}
}

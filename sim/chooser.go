package sim

// Chooser is the single source of every decision a simulated run takes:
// configuration, workload, scheduling picks, latencies, faults. In generation
// mode values come from a splitmix64 stream seeded by the run seed and are
// recorded; in replay mode the recorded values are fed back (value mod n when
// the shape changed, 0 when exhausted), which makes the sequence shrinkable.
type Chooser struct {
	state   uint64
	replay  bool
	prefix  bool // in[] pins the choices after the first two (math/rand seed), the rest is drawn
	in      []uint32
	Rec     []uint32
	Labels  []string // kind label per recorded choice (only when KeepLabels)
	KeepLab bool
}

func splitmix64(x *uint64) uint64 {
	*x += 0x9e3779b97f4a7c15
	z := *x
	z = (z ^ (z >> 30)) * 0xbf58476d1ce4e5b9
	z = (z ^ (z >> 27)) * 0x94d049bb133111eb
	return z ^ (z >> 31)
}

// Mix derives a run seed from the base seed, a property tag and a run index.
func Mix(base uint64, tag string, i uint64) uint64 {
	s := base
	for _, b := range []byte(tag) {
		s = s*1099511628211 ^ uint64(b)
	}
	s ^= i * 0x9e3779b97f4a7c15
	_ = splitmix64(&s)
	return splitmix64(&s)
}

func NewChooser(seed uint64) *Chooser { return &Chooser{state: seed} }

func NewReplayChooser(choices []uint32) *Chooser {
	return &Chooser{replay: true, in: choices}
}

// Intn returns a value in [0,n). n<=1 consumes nothing.
func (c *Chooser) Intn(kind string, n int) int {
	if n <= 1 {
		return 0
	}
	var v uint32
	pos := len(c.Rec)
	switch {
	case c.replay:
		if pos < len(c.in) {
			v = c.in[pos] % uint32(n)
		}
	case c.prefix && pos >= 2 && pos-2 < len(c.in):
		v = c.in[pos-2] % uint32(n)
	default:
		v = uint32(splitmix64(&c.state) % uint64(n))
	}
	c.Rec = append(c.Rec, v)
	if c.KeepLab {
		c.Labels = append(c.Labels, kind)
	}
	return int(v)
}

// Bool is true with probability num/den (value 0 == false so that shrinking
// towards zero means "no fault").
func (c *Chooser) Bool(kind string, num, den int) bool {
	if num <= 0 {
		return false
	}
	v := c.Intn(kind, den)
	return v >= den-num
}

// Range returns a value in [lo,hi].
func (c *Chooser) Range(kind string, lo, hi int) int {
	if hi <= lo {
		return lo
	}
	return lo + c.Intn(kind, hi-lo+1)
}

// Pick returns an index according to integer weights (index 0 is the
// "simplest" alternative by convention).
func (c *Chooser) Pick(kind string, weights ...int) int {
	tot := 0
	for _, w := range weights {
		tot += w
	}
	v := c.Intn(kind, tot)
	for i, w := range weights {
		if v < w {
			return i
		}
		v -= w
	}
	return len(weights) - 1
}

// Seed64 gives a derived 64-bit value (used to pin math/rand).
func (c *Chooser) Seed64(kind string) uint64 {
	hi := uint64(c.Intn(kind, 1<<30))
	lo := uint64(c.Intn(kind, 1<<30))
	return hi<<30 | lo
}

package sim

import (
	"context"
	"encoding/json"
	"fmt"
	"os"
	"path/filepath"
	"strconv"
	"strings"
	"sync"
	"sync/atomic"
	"syscall"
	"time"

	"github.com/ARM-software/golang-utils/utils/commonerrors"
	"github.com/ARM-software/golang-utils/utils/logs"
	"github.com/ARM-software/golang-utils/utils/subprocess"
)

func init() {
	Register(&Prop{
		ID:    "C18",
		Run:   runC18Adapter,
		Level: "exploration",
		Rule: "part 1 (simulated, fully deterministic): the real stream-to-logger adapters of the subprocess package (exported by the verif hook) and the real loggers exactly as Output() combines them, fed by a scripted pipe: the child's output script (0..10^6 bytes per stream, line lengths 1..10^5, final line with or without newline, empty lines, both streams interleaved) cut into Write calls at seeded byte offsets - the chunking that the kernel and os/exec's copier would otherwise choose; " +
			"oracle: the messages received by a recording logger, per stream, are exactly the non-empty lines of the script, complete, unmodified and in order, and the Output() string contains all of them. non-trivial = at least one line is cut by a chunk boundary or a stream has no final newline; distinct = distinct script digest",
		Real:        []string{"utils/subprocess logging.go (logStreamer through VerifNewStreamAdapters)", "utils/logs (combined loggers + plain string logger as in OutputAsWithEnvironment)", "utils/safeio (contextual writer)"},
		Stub:        []string{"the child process and the pipe: scripted writes (chunk boundaries decided by the seed)"},
		Assumptions: []string{"hook: utils/subprocess/verif_export.go (build tag verif) exports the adapters", "the exit-status / message-order half of the property runs on real processes (go property C18P, engine 'proc')"},
	})
	Register(&Prop{
		ID:             "C18P",
		Run:            runC18Process,
		Level:          "exploration",
		ReplayAttempts: 3,
		Rule: "part 2 (engine 'proc': real kernel, real processes, lock-stepped): Execute() and Output() of the library start the harness' helper binary, which plays a generated script: writes to stdout/stderr in chunks, each followed by a wait until the pipe has been drained (so the chunks seen by os/exec's copier are the scripted ones), then exits with a code 0..255 or kills itself with a signal; with and without extra environment variables, with and without cancellation of the context at a scripted step; " +
			"oracle: nil exactly when the exit status is 0, an error of context kind when cancelled; the start message first, exactly one success/failure message last, the child's lines per stream in between, complete and in order; Output() returns all of it. non-trivial = non-zero exit, signal, cancellation or a line cut by a chunk boundary; distinct = distinct scenario digest",
		Real:        []string{"utils/subprocess (executor, command wrapper, monitoring, messaging, logging)", "utils/proc (error conversion)", "os/exec, the Linux kernel (pipes, signals, wait)"},
		Stub:        []string{"the child: harness helper binary executing a generated script; chunking made reproducible by drain-synchronised writes", "nothing else: time is real, bounds are wall-clock (a call must return within 20 s)"},
		Assumptions: []string{"not simulated time: kernel scheduling between script steps is not controlled; end-state oracles only", "built with go1.26.8; go-deadlock detection disabled"},
	})
}

// recLogger records every message per stream, in order.
type recLogger struct {
	mu  sync.Mutex
	out []string
	err []string
	all []string // "O:" / "E:" prefixed, global order
	// onOut is called (outside the lock) with every output message
	onOut func(string)
}

func (r *recLogger) Close() error                 { return nil }
func (r *recLogger) Check() error                 { return nil }
func (r *recLogger) SetLogSource(string) error    { return nil }
func (r *recLogger) SetLoggerSource(string) error { return nil }
func (r *recLogger) Log(output ...interface{}) {
	r.mu.Lock()
	s := fmt.Sprint(output...)
	r.out = append(r.out, s)
	r.all = append(r.all, "O:"+s)
	hook := r.onOut
	r.mu.Unlock()
	if hook != nil {
		hook(s)
	}
}
func (r *recLogger) LogError(e ...interface{}) {
	r.mu.Lock()
	defer r.mu.Unlock()
	s := fmt.Sprint(e...)
	r.err = append(r.err, s)
	r.all = append(r.all, "E:"+s)
}

type outScript struct {
	lines    []string // may contain empty lines
	finalNL  bool
	cuts     []int // chunk boundaries (byte offsets into the stream text)
	text     string
	nonEmpty []string
}

func genOutScript(ch *Chooser, tag string) outScript {
	var s outScript
	n := ch.Pick(tag+"nlines", 1, 3, 3, 2, 1)
	switch n {
	case 0:
		n = 0
	case 1:
		n = 1 + ch.Intn(tag+"n", 3)
	case 2:
		n = 3 + ch.Intn(tag+"n", 20)
	case 3:
		n = 30 + ch.Intn(tag+"n", 300)
	default:
		n = 2000 + ch.Intn(tag+"n", 3000)
	}
	for i := 0; i < n; i++ {
		var l int
		switch ch.Pick(tag+"len", 1, 5, 3, 1, 1) {
		case 0:
			l = 0
		case 1:
			l = 1 + ch.Intn(tag+"l", 40)
		case 2:
			l = 60 + ch.Intn(tag+"l", 400)
		case 3:
			l = 4000 + ch.Intn(tag+"l", 5000)
		default:
			if n < 40 {
				l = 30000 + ch.Intn(tag+"l", 70000)
			} else {
				l = 1 + ch.Intn(tag+"l", 40)
			}
		}
		line := ""
		if l > 0 {
			head := fmt.Sprintf("%s%d:", tag, i)
			if l < len(head) {
				head = head[:l]
			}
			line = head + strings.Repeat(string(rune('a'+i%26)), l-len(head))
		}
		s.lines = append(s.lines, line)
	}
	s.finalNL = n == 0 || ch.Intn(tag+"finalnl", 3) != 0
	s.text = strings.Join(s.lines, "\n")
	if s.finalNL && n > 0 {
		s.text += "\n"
	}
	for _, l := range s.lines {
		if l != "" {
			s.nonEmpty = append(s.nonEmpty, l)
		}
	}
	// chunk boundaries
	if len(s.text) > 1 {
		var ncuts int
		switch ch.Pick(tag+"cuts", 2, 3, 2, 1) {
		case 0:
			ncuts = 0
		case 1:
			ncuts = 1 + ch.Intn(tag+"nc", 4)
		case 2:
			ncuts = 5 + ch.Intn(tag+"nc", 40)
		default:
			ncuts = len(s.text) / 4096
		}
		seen := map[int]bool{}
		for i := 0; i < ncuts; i++ {
			c := 1 + ch.Intn(tag+"cut", len(s.text)-1)
			if !seen[c] {
				seen[c] = true
				s.cuts = append(s.cuts, c)
			}
		}
		sortInts(s.cuts)
	}
	return s
}

func sortInts(a []int) {
	for i := 1; i < len(a); i++ {
		for j := i; j > 0 && a[j] < a[j-1]; j-- {
			a[j], a[j-1] = a[j-1], a[j]
		}
	}
}

func (s outScript) chunks() []string {
	var out []string
	prev := 0
	for _, c := range s.cuts {
		out = append(out, s.text[prev:c])
		prev = c
	}
	if prev < len(s.text) {
		out = append(out, s.text[prev:])
	}
	return out
}

// cutsLines reports whether a chunk boundary falls strictly inside a line.
func (s outScript) cutsLines() bool {
	for _, c := range s.cuts {
		if c > 0 && c < len(s.text) && s.text[c-1] != '\n' {
			return true
		}
	}
	return false
}

func describeScript(s outScript) string {
	return fmt.Sprintf("{%d lines (%d non-empty) %d bytes finalNewline=%v chunks=%d cutsInsideLines=%v}", len(s.lines), len(s.nonEmpty), len(s.text), s.finalNL, len(s.cuts)+1, s.cutsLines())
}

func compareLines(res *RunResult, sigPrefix, stream string, got, want []string, cfg string) {
	if len(got) == len(want) {
		same := true
		for i := range got {
			if got[i] != want[i] {
				same = false
				break
			}
		}
		if same {
			return
		}
	}
	// classify
	kind := "lines-differ"
	joined := strings.Join(got, "")
	if len(got) > len(want) && joined == strings.Join(want, "") {
		kind = "line-split-at-chunk-boundary"
	} else if len(got) < len(want) {
		kind = "lines-lost"
	}
	i := 0
	for i < len(got) && i < len(want) && got[i] == want[i] {
		i++
	}
	g, w := "<none>", "<none>"
	if i < len(got) {
		g = got[i]
	}
	if i < len(want) {
		w = want[i]
	}
	if len(g) > 60 {
		g = g[:60] + "..."
	}
	if len(w) > 60 {
		w = w[:60] + "..."
	}
	res.Violate("output-lines", sigPrefix+"|"+kind, fmt.Sprintf("%s: %s: the logger received %d messages for %d non-empty lines; first difference at message %d: got %q, the child wrote %q", cfg, stream, len(got), len(want), i, g, w))
}

func runC18Adapter(rc *RunCtx) {
	ch := rc.Ch
	res := rc.Res
	so := genOutScript(ch, "o")
	se := genOutScript(ch, "e")
	viaOutput := ch.Intn("viaoutput", 2) == 1
	res.Config = fmt.Sprintf("adapter stdout=%s stderr=%s combinedLikeOutput=%v", describeScript(so), describeScript(se), viaOutput)
	res.Digest = hashStrings(res.Config, fmt.Sprint(so.cuts), fmt.Sprint(se.cuts))
	res.NonTrivial = so.cutsLines() || se.cutsLines() || !so.finalNL || !se.finalNL
	rec := &recLogger{}
	var lg logs.Loggers = rec
	var sl *logs.StringLoggers
	if viaOutput {
		var err error
		sl, err = logs.NewPlainStringLogger()
		if err != nil {
			res.Infra = err.Error()
			return
		}
		lg, err = logs.NewCombinedLoggers(rec, sl)
		if err != nil {
			res.Infra = err.Error()
			return
		}
	}
	ctx, cancel := context.WithCancel(context.Background())
	defer cancel()
	wo, we, flush := subprocess.VerifNewStreamAdapters(ctx, lg)
	co, ce := so.chunks(), se.chunks()
	// like os/exec's copier, every stream hands its chunks over in ONE reused buffer: an adapter that keeps a
	// reference into it instead of copying would see its kept bytes overwritten by the next chunk
	bufO, bufE := make([]byte, 0, 1<<20), make([]byte, 0, 1<<20)
	// interleave the two streams in a seeded order (each stream keeps its own order)
	i, j := 0, 0
	for i < len(co) || j < len(ce) {
		pickOut := j >= len(ce) || (i < len(co) && ch.Intn("interleave", 2) == 0)
		if pickOut {
			bufO = append(bufO[:0], co[i]...)
			n, err := wo.Write(bufO)
			if err != nil || n != len(co[i]) {
				res.Violate("adapter-write", "adapter|write-failed", fmt.Sprintf("%s: Write returned (%d, %v) for a chunk of %d bytes", res.Config, n, err, len(co[i])))
				return
			}
			i++
		} else {
			bufE = append(bufE[:0], ce[j]...)
			n, err := we.Write(bufE)
			if err != nil || n != len(ce[j]) {
				res.Violate("adapter-write", "adapter|write-failed", fmt.Sprintf("%s: Write returned (%d, %v) for a chunk of %d bytes", res.Config, n, err, len(ce[j])))
				return
			}
			j++
		}
	}
	flush() // what the command wrapper does once the process has ended
	res.Steps = len(co) + len(ce)
	compareLines(res, "adapter|stdout", "standard output", rec.out, so.nonEmpty, res.Config)
	compareLines(res, "adapter|stderr", "standard error", rec.err, se.nonEmpty, res.Config)
	if sl != nil && len(res.Violations) == 0 {
		content := sl.GetLogContent()
		pos := 0
		for _, l := range so.nonEmpty {
			k := strings.Index(content[pos:], l)
			if k < 0 {
				res.Violate("output-lines", "adapter|Output-string-misses-lines", fmt.Sprintf("%s: the string collected as by Output() does not contain, in order, the stdout line %.40q", res.Config, l))
				break
			}
			pos += k + len(l)
		}
	}
	if rc.KeepTrace {
		res.Trace = []string{res.Config}
	}
}

// ---- real processes

func helperPath() string { return os.Getenv("VERIF_HELPER") }

type hStep struct {
	Op       string   `json:"op"`
	Fd       int      `json:"fd,omitempty"`
	Data     string   `json:"data,omitempty"`
	Drain    bool     `json:"drain,omitempty"`
	Ms       int      `json:"ms,omitempty"`
	Code     int      `json:"code,omitempty"`
	Sig      string   `json:"sig,omitempty"`
	Child    *hScript `json:"child,omitempty"`
	Wait     bool     `json:"wait,omitempty"`
	NewGroup bool     `json:"newgroup,omitempty"`
	Name     string   `json:"name,omitempty"`
}

type hScript struct {
	Dir   string  `json:"dir"`
	Name  string  `json:"name"`
	Steps []hStep `json:"steps"`
}

func writeScript(dir string, s *hScript) (string, error) {
	s.Dir = dir
	b, _ := json.Marshal(s)
	p := filepath.Join(dir, "root.json")
	return p, os.WriteFile(p, b, 0o644)
}

func scenarioDir() (string, func(), error) {
	scratch := os.Getenv("VERIF_SCRATCH")
	if scratch == "" {
		scratch = os.TempDir()
	}
	d, err := os.MkdirTemp(scratch, "proc-")
	return d, func() { _ = os.RemoveAll(d) }, err
}

// livePids returns the recorded pids that are still alive (not zombies reaped or gone).
func livePids(dir string) []string {
	ents, _ := os.ReadDir(filepath.Join(dir, "pids"))
	var out []string
	for _, e := range ents {
		pid, err := strconv.Atoi(e.Name())
		if err != nil {
			continue
		}
		b, err := os.ReadFile(fmt.Sprintf("/proc/%d/stat", pid))
		if err != nil {
			continue
		}
		// state is the field after the command in parentheses
		s := string(b)
		k := strings.LastIndex(s, ")")
		state := "?"
		if k >= 0 && k+2 < len(s) {
			state = s[k+2 : k+3]
		}
		name, _ := os.ReadFile(filepath.Join(dir, "pids", e.Name()))
		if state == "Z" {
			// a zombie that is our own child has terminated; it only awaits reaping by the library
			if ppid := strings.Fields(s[k+2:]); len(ppid) > 1 && ppid[1] == strconv.Itoa(os.Getpid()) {
				out = append(out, fmt.Sprintf("%d(%s,zombie-child-of-caller)", pid, name))
			}
			continue
		}
		out = append(out, fmt.Sprintf("%d(%s,state %s)", pid, name, state))
	}
	return out
}

func killRecorded(dir string) {
	ents, _ := os.ReadDir(filepath.Join(dir, "pids"))
	for _, e := range ents {
		if pid, err := strconv.Atoi(e.Name()); err == nil {
			_ = syscall.Kill(pid, syscall.SIGKILL)
		}
	}
}

func runC18Process(rc *RunCtx) {
	ch := rc.Ch
	res := rc.Res
	if helperPath() == "" {
		res.Infra = "VERIF_HELPER not set"
		return
	}
	so := genOutScriptSmall(ch, "o")
	se := genOutScriptSmall(ch, "e")
	ending := ch.Pick("ending", 4, 4, 2) // 0 exit 0, 1 exit code, 2 signal
	code := 0
	sig := ""
	switch ending {
	case 1:
		code = 1 + ch.Intn("code", 255)
	case 2:
		// signals on which the Go runtime of the helper prints nothing and dies. Not SIGINT / SIGHUP: a check started in the
		// background of a non-interactive shell (or under nohup) inherits them as ignored, the helper would survive its own
		// signal and exit 0 (seen as 1248 false "death by SIGINT reported as success" in a thorough run started with nohup ... &)
		sig = []string{"KILL", "TERM", "KILL"}[ch.Intn("sig", 3)]
	}
	useOutput := ch.Intn("api", 3) == 0
	withEnv := ch.Intn("env", 2) == 1
	cancelAt := -1
	if ch.Intn("cancel", 5) == 0 {
		cancelAt = ch.Intn("cancelat", 4)
	}
	lateDraw := ch.Intn("latecancel", 2) == 0
	res.Config = fmt.Sprintf("process stdout=%s stderr=%s ending=%d code=%d sig=%q api=%s env=%v cancelAfterMs=%d contextMayEndDuringFinalFlush=%v", describeScript(so), describeScript(se), ending, code, sig, map[bool]string{true: "Output", false: "Execute"}[useOutput], withEnv, cancelAt, lateDraw)
	res.Digest = hashStrings(res.Config, fmt.Sprint(so.cuts), fmt.Sprint(se.cuts))
	res.NonTrivial = ending != 0 || cancelAt >= 0 || so.cutsLines() || se.cutsLines()
	dir, cleanup, err := scenarioDir()
	if err != nil {
		res.Infra = err.Error()
		return
	}
	defer cleanup()
	root := &hScript{Name: "root"}
	co, ce := so.chunks(), se.chunks()
	i, j := 0, 0
	for i < len(co) || j < len(ce) {
		if j >= len(ce) || (i < len(co) && ch.Intn("interleave", 2) == 0) {
			root.Steps = append(root.Steps, hStep{Op: "write", Fd: 1, Data: co[i], Drain: true})
			i++
		} else {
			root.Steps = append(root.Steps, hStep{Op: "write", Fd: 2, Data: ce[j], Drain: true})
			j++
		}
	}
	if cancelAt >= 0 {
		root.Steps = append(root.Steps, hStep{Op: "sleep", Ms: 20000})
	}
	switch ending {
	case 0:
		root.Steps = append(root.Steps, hStep{Op: "exit", Code: 0})
	case 1:
		root.Steps = append(root.Steps, hStep{Op: "exit", Code: code})
	default:
		root.Steps = append(root.Steps, hStep{Op: "kill", Sig: sig})
	}
	script, err := writeScript(dir, root)
	if err != nil {
		res.Infra = err.Error()
		return
	}
	defer killRecorded(dir)
	rec := &recLogger{}
	ctx, cancel := context.WithCancel(context.Background())
	defer cancel()
	// the context ends while the last output is being handed over, after the child has exited with status 0: the last
	// line of standard output is not terminated, so it only reaches the logger through the end-of-process flush; the
	// logger cancels the context at that moment. The child was not cancelled: nil and the success message are owed.
	lateCancel := cancelAt < 0 && ending == 0 && !so.finalNL && len(so.lines) > 0 && so.lines[len(so.lines)-1] != "" && lateDraw
	if lateCancel {
		last := so.nonEmpty[len(so.nonEmpty)-1]
		expected := len(so.nonEmpty) // lines may repeat: it is the last one by count, too
		if !useOutput {
			expected++ // the start message
		}
		var seen atomic.Int32
		rec.onOut = func(m string) {
			if n := int(seen.Add(1)); m == last && n == expected {
				cancel()
			}
		}
		res.Fault("context-ends-during-the-end-of-process-flush")
	}
	if cancelAt >= 0 {
		t := time.AfterFunc(time.Duration(150+cancelAt*100)*time.Millisecond, cancel)
		defer t.Stop()
	}
	var env []string
	if withEnv {
		env = []string{"VERIF_EXTRA=1", "ANOTHER=two words"}
	}
	type result struct {
		err error
		out string
	}
	done := make(chan result, 1)
	startT := time.Now()
	go func() {
		if useOutput {
			o, e := subprocess.OutputWithEnvironment(ctx, rec, env, helperPath(), script)
			done <- result{err: e, out: o}
			return
		}
		done <- result{err: subprocess.ExecuteWithEnvironment(ctx, rec, env, "START-MESSAGE", "SUCCESS-MESSAGE", "FAILURE-MESSAGE", helperPath(), script)}
	}()
	var r result
	select {
	case r = <-done:
	case <-time.After(20 * time.Second): // (the helper ends itself after 25 s: a call blocked on it would return then)
		res.Violate("blocked", "process|call-did-not-return", fmt.Sprintf("%s: the call did not return within 20 s", res.Config))
		return
	}
	res.SimNanos = int64(time.Since(startT))
	res.Steps = len(root.Steps)
	viol := func(sig, msg string) { res.Violate("subprocess-result", "process|"+sig, res.Config+": "+msg) }
	// exit status
	switch {
	case cancelAt >= 0:
		if r.err == nil {
			viol("cancelled-but-nil", "the context was cancelled while the child was running but nil was returned")
		} else if !commonerrors.Any(r.err, commonerrors.ErrCancelled, commonerrors.ErrTimeout) {
			viol("cancelled-but-not-context-kind", fmt.Sprintf("the context was cancelled while the child was running: %v", r.err))
		}
	case ending == 0:
		if r.err != nil {
			viol("exit-0-but-error", fmt.Sprintf("the child exited with status 0: %v", r.err))
		}
	default:
		if r.err == nil {
			what := fmt.Sprintf("exit status %d", code)
			if ending == 2 {
				what = "death by SIG" + sig
			}
			viol("failure-reported-as-success|"+map[int]string{1: "exit-code", 2: "signal-" + sig}[ending], "the child ended with "+what+" but nil was returned")
		}
	}
	// messages (a cancelled run gets a moment more: whatever the library's monitoring task still logs after the call
	// returned counts - "exactly one of the success / failure messages")
	if cancelAt >= 0 {
		time.Sleep(300 * time.Millisecond)
	}
	rec.mu.Lock()
	out, errs, all := append([]string{}, rec.out...), append([]string{}, rec.err...), append([]string{}, rec.all...)
	rec.mu.Unlock()
	if !useOutput {
		if len(all) == 0 || all[0] != "O:START-MESSAGE" {
			viol("start-message-not-first", fmt.Sprintf("first message is %.60q", first(all)))
		} else {
			out = out[1:]
		}
		nEnd := 0
		for _, m := range all {
			if m == "O:SUCCESS-MESSAGE" || strings.HasPrefix(m, "E:FAILURE-MESSAGE") {
				nEnd++
			}
		}
		last := ""
		if len(all) > 0 {
			last = all[len(all)-1]
		}
		if nEnd != 1 || !(last == "O:SUCCESS-MESSAGE" || strings.HasPrefix(last, "E:FAILURE-MESSAGE")) {
			viol("end-message", fmt.Sprintf("%d success/failure messages were logged, the last message is %.60q", nEnd, last))
		} else {
			if last == "O:SUCCESS-MESSAGE" {
				out = out[:len(out)-1]
				if r.err != nil {
					viol("success-message-with-error", "the success message was logged but an error was returned")
				}
			} else {
				errs = errs[:len(errs)-1]
				if r.err == nil {
					viol("failure-message-with-nil", "the failure message was logged but nil was returned")
				}
			}
		}
	}
	if cancelAt < 0 {
		compareLines(res, "process|stdout", "standard output", out, so.nonEmpty, res.Config)
		compareLines(res, "process|stderr", "standard error", errs, se.nonEmpty, res.Config)
		if useOutput {
			pos := 0
			for _, l := range so.nonEmpty {
				k := strings.Index(r.out[pos:], l)
				if k < 0 {
					viol("Output-string-misses-lines", fmt.Sprintf("Output() does not contain, in order, the stdout line %.40q", l))
					break
				}
				pos += k + len(l)
			}
		}
	}
	if rc.KeepTrace {
		res.Trace = append([]string{res.Config, fmt.Sprintf("err=%v", r.err)}, trunc(rec.all, 12)...)
	}
}

func first(a []string) string {
	if len(a) == 0 {
		return "<none>"
	}
	return a[0]
}

func trunc(a []string, n int) []string {
	var out []string
	for i, s := range a {
		if i >= n {
			break
		}
		if len(s) > 80 {
			s = s[:80] + "..."
		}
		out = append(out, s)
	}
	return out
}

// genOutScriptSmall: scripts small enough for real pipes at real speed.
func genOutScriptSmall(ch *Chooser, tag string) outScript {
	var s outScript
	n := []int{0, 1, 2, 5, 30}[ch.Pick(tag+"nlines", 1, 3, 3, 3, 1)]
	for i := 0; i < n; i++ {
		var l int
		switch ch.Pick(tag+"len", 1, 5, 2, 1) {
		case 0:
			l = 0
		case 1:
			l = 1 + ch.Intn(tag+"l", 40)
		case 2:
			l = 500 + ch.Intn(tag+"l", 3000)
		default:
			l = 40000 + ch.Intn(tag+"l", 60000)
		}
		line := ""
		if l > 0 {
			head := fmt.Sprintf("%s%d:", tag, i)
			if l < len(head) {
				head = head[:l]
			}
			line = head + strings.Repeat(string(rune('a'+i%26)), l-len(head))
		}
		s.lines = append(s.lines, line)
	}
	s.finalNL = n == 0 || ch.Intn(tag+"finalnl", 3) != 0
	s.text = strings.Join(s.lines, "\n")
	if s.finalNL && n > 0 {
		s.text += "\n"
	}
	for _, l := range s.lines {
		if l != "" {
			s.nonEmpty = append(s.nonEmpty, l)
		}
	}
	if len(s.text) > 1 {
		ncuts := []int{0, 1, 3, 8}[ch.Intn(tag+"cuts", 4)]
		seen := map[int]bool{}
		for i := 0; i < ncuts; i++ {
			c := 1 + ch.Intn(tag+"cut", len(s.text)-1)
			if !seen[c] {
				seen[c] = true
				s.cuts = append(s.cuts, c)
			}
		}
		sortInts(s.cuts)
	}
	return s
}

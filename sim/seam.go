package sim

import (
	"os"
	"sync"
	"sync/atomic"
	"time"

	"github.com/spf13/afero"
)

// Op is one call crossing the afero.Fs boundary.
type Op struct {
	Client   int
	Name     string // mkdir, mkdirall, open, create?, remove, removeall, rename, stat, lstat, chmod, chown, chtimes, read, readat, write, writeat, close, readdir, fstat, truncate, sync
	Path     string
	Path2    string
	Flag     int
	Len      int   // requested bytes for read/write
	Idx      int   // per-seam operation index (0-based)
	Mutating bool  // would change the store if it succeeded
	Err      error // result (set before After is called)
	N        int   // bytes transferred / names listed
	lat      time.Duration
	Aux      interface{} // scratch for oracles (set in OnEffect, read in OnDone)
	AuxGen   int
}

// Fault is the decision taken for one operation before its effect.
type Fault struct {
	Err     error // non-nil: returned to the caller
	Apply   bool  // with Err != nil: apply the effect anyway ("lost acknowledgement")
	Short   int   // for write ops when >0: only the first Short bytes are applied (torn / short write)
	Latency time.Duration
}

// Seam wraps any afero.Fs. Before is called ahead of every operation (it may
// block: that is where the simulator parks the caller) and returns the fault
// decision; After is called once the operation has been applied.
type Seam struct {
	Inner  afero.Fs
	Client int
	Before func(op *Op) *Fault
	After  func(op *Op)

	mu      sync.Mutex
	idx     int
	opened  int64
	closed  int64
	OpenLog map[*seamFile]string
}

var _ afero.Fs = (*Seam)(nil)
var _ afero.Lstater = (*Seam)(nil)

func NewSeam(inner afero.Fs, client int) *Seam {
	return &Seam{Inner: inner, Client: client, OpenLog: map[*seamFile]string{}}
}

// Balance is handles opened minus handles closed through this seam.
func (s *Seam) Balance() int {
	return int(atomic.LoadInt64(&s.opened) - atomic.LoadInt64(&s.closed))
}

// OpenPaths lists the paths of handles still open.
func (s *Seam) OpenPaths() []string {
	s.mu.Lock()
	defer s.mu.Unlock()
	var out []string
	for _, p := range s.OpenLog {
		out = append(out, p)
	}
	return out
}

// OpCount is the number of operations seen so far.
func (s *Seam) OpCount() int {
	s.mu.Lock()
	defer s.mu.Unlock()
	return s.idx
}

func (s *Seam) begin(name, path, path2 string, flag, ln int, mutating bool) (*Op, *Fault) {
	s.mu.Lock()
	op := &Op{Client: s.Client, Name: name, Path: path, Path2: path2, Flag: flag, Len: ln, Idx: s.idx, Mutating: mutating}
	s.idx++
	s.mu.Unlock()
	var f *Fault
	if s.Before != nil {
		f = s.Before(op)
	}
	return op, f
}

func (s *Seam) end(op *Op, f *Fault, err error, n int) {
	op.Err, op.N = err, n
	if s.After != nil {
		s.After(op)
	}
}

func (s *Seam) Name() string { return "seam(" + s.Inner.Name() + ")" }

func (s *Seam) simple(name, path, path2 string, mutating bool, eff func() error) error {
	op, f := s.begin(name, path, path2, 0, 0, mutating)
	var err error
	if f != nil && f.Err != nil {
		if f.Apply {
			_ = eff()
		}
		err = f.Err
	} else {
		err = eff()
	}
	s.end(op, f, err, 0)
	return err
}

func (s *Seam) Mkdir(name string, perm os.FileMode) error {
	return s.simple("mkdir", name, "", true, func() error { return s.Inner.Mkdir(name, perm) })
}
func (s *Seam) MkdirAll(path string, perm os.FileMode) error {
	return s.simple("mkdirall", path, "", true, func() error { return s.Inner.MkdirAll(path, perm) })
}
func (s *Seam) Remove(name string) error {
	return s.simple("remove", name, "", true, func() error { return s.Inner.Remove(name) })
}
func (s *Seam) RemoveAll(path string) error {
	return s.simple("removeall", path, "", true, func() error { return s.Inner.RemoveAll(path) })
}
func (s *Seam) Rename(o, n string) error {
	return s.simple("rename", o, n, true, func() error { return s.Inner.Rename(o, n) })
}
func (s *Seam) Chmod(name string, mode os.FileMode) error {
	return s.simple("chmod", name, "", true, func() error { return s.Inner.Chmod(name, mode) })
}
func (s *Seam) Chown(name string, uid, gid int) error {
	return s.simple("chown", name, "", true, func() error { return s.Inner.Chown(name, uid, gid) })
}
func (s *Seam) Chtimes(name string, a, m time.Time) error {
	return s.simple("chtimes", name, "", true, func() error { return s.Inner.Chtimes(name, a, m) })
}

// ForceRemoveIfPossible makes the seam an IForceRemover ("sudo rm -rf"): one backend call doing unbounded work.
func (s *Seam) ForceRemoveIfPossible(name string) error {
	return s.simple("forceremove", name, "", true, func() error { return s.Inner.RemoveAll(name) })
}

func (s *Seam) Stat(name string) (os.FileInfo, error) {
	var fi os.FileInfo
	err := s.simple("stat", name, "", false, func() error {
		var e error
		fi, e = s.Inner.Stat(name)
		return e
	})
	if err != nil {
		return nil, err
	}
	return fi, nil
}

func (s *Seam) LstatIfPossible(name string) (os.FileInfo, bool, error) {
	var fi os.FileInfo
	ok := false
	err := s.simple("lstat", name, "", false, func() error {
		var e error
		if l, isL := s.Inner.(afero.Lstater); isL {
			fi, ok, e = l.LstatIfPossible(name)
		} else {
			fi, e = s.Inner.Stat(name)
		}
		return e
	})
	if err != nil {
		return nil, ok, err
	}
	return fi, ok, nil
}

func (s *Seam) Create(name string) (afero.File, error) {
	return s.OpenFile(name, os.O_RDWR|os.O_CREATE|os.O_TRUNC, 0o666)
}
func (s *Seam) Open(name string) (afero.File, error) { return s.OpenFile(name, os.O_RDONLY, 0) }

func (s *Seam) OpenFile(name string, flag int, perm os.FileMode) (afero.File, error) {
	mut := flag&(os.O_CREATE|os.O_TRUNC) != 0
	op, f := s.begin("open", name, "", flag, 0, mut)
	var inner afero.File
	var err error
	if f != nil && f.Err != nil {
		if f.Apply {
			if in, e := s.Inner.OpenFile(name, flag, perm); e == nil {
				_ = in.Close()
			}
		}
		err = f.Err
	} else {
		inner, err = s.Inner.OpenFile(name, flag, perm)
	}
	s.end(op, f, err, 0)
	if err != nil {
		return nil, err
	}
	sf := &seamFile{s: s, in: inner, name: name}
	atomic.AddInt64(&s.opened, 1)
	s.mu.Lock()
	s.OpenLog[sf] = name
	s.mu.Unlock()
	return sf, nil
}

type seamFile struct {
	s      *Seam
	in     afero.File
	name   string
	closed bool
}

func (f *seamFile) Name() string { return f.in.Name() }

func (f *seamFile) Close() error {
	op, ft := f.s.begin("close", f.name, "", 0, 0, false)
	// a close always releases the handle, whatever is reported
	err := f.in.Close()
	if ft != nil && ft.Err != nil {
		err = ft.Err
	}
	if !f.closed {
		f.closed = true
		atomic.AddInt64(&f.s.closed, 1)
		f.s.mu.Lock()
		delete(f.s.OpenLog, f)
		f.s.mu.Unlock()
	}
	f.s.end(op, ft, err, 0)
	return err
}

func (f *seamFile) Read(p []byte) (int, error) {
	op, ft := f.s.begin("read", f.name, "", 0, len(p), false)
	var n int
	var err error
	if ft != nil && ft.Err != nil {
		err = ft.Err
	} else if ft != nil && ft.Short > 0 && ft.Short < len(p) {
		n, err = f.in.Read(p[:ft.Short])
	} else {
		n, err = f.in.Read(p)
	}
	f.s.end(op, ft, err, n)
	return n, err
}

func (f *seamFile) ReadAt(p []byte, off int64) (int, error) {
	op, ft := f.s.begin("readat", f.name, "", 0, len(p), false)
	var n int
	var err error
	if ft != nil && ft.Err != nil {
		err = ft.Err
	} else {
		n, err = f.in.ReadAt(p, off)
	}
	f.s.end(op, ft, err, n)
	return n, err
}

func (f *seamFile) Seek(offset int64, whence int) (int64, error) { return f.in.Seek(offset, whence) }

func (f *seamFile) Write(p []byte) (int, error) {
	op, ft := f.s.begin("write", f.name, "", 0, len(p), true)
	var n int
	var err error
	switch {
	case ft != nil && ft.Err != nil:
		if ft.Apply {
			q := p
			if ft.Short > 0 && ft.Short < len(p) {
				q = p[:ft.Short]
			}
			n, _ = f.in.Write(q)
			if ft.Short == 0 {
				n = 0 // full effect, acknowledgement lost
			}
		}
		err = ft.Err
	case ft != nil && ft.Short > 0 && ft.Short < len(p):
		n, err = f.in.Write(p[:ft.Short]) // short write, no error reported
	default:
		n, err = f.in.Write(p)
	}
	f.s.end(op, ft, err, n)
	return n, err
}

func (f *seamFile) WriteAt(p []byte, off int64) (int, error) {
	op, ft := f.s.begin("writeat", f.name, "", 0, len(p), true)
	var n int
	var err error
	if ft != nil && ft.Err != nil {
		err = ft.Err
	} else {
		n, err = f.in.WriteAt(p, off)
	}
	f.s.end(op, ft, err, n)
	return n, err
}

func (f *seamFile) WriteString(str string) (int, error) { return f.Write([]byte(str)) }

func (f *seamFile) Readdir(count int) ([]os.FileInfo, error) {
	op, ft := f.s.begin("readdir", f.name, "", 0, count, false)
	var r []os.FileInfo
	var err error
	if ft != nil && ft.Err != nil {
		err = ft.Err
	} else {
		r, err = f.in.Readdir(count)
	}
	f.s.end(op, ft, err, len(r))
	return r, err
}

func (f *seamFile) Readdirnames(n int) ([]string, error) {
	op, ft := f.s.begin("readdir", f.name, "", 0, n, false)
	var r []string
	var err error
	if ft != nil && ft.Err != nil {
		err = ft.Err
	} else {
		r, err = f.in.Readdirnames(n)
	}
	f.s.end(op, ft, err, len(r))
	return r, err
}

func (f *seamFile) Stat() (os.FileInfo, error) {
	op, ft := f.s.begin("fstat", f.name, "", 0, 0, false)
	var r os.FileInfo
	var err error
	if ft != nil && ft.Err != nil {
		err = ft.Err
	} else {
		r, err = f.in.Stat()
	}
	f.s.end(op, ft, err, 0)
	if err != nil {
		return nil, err
	}
	return r, nil
}

func (f *seamFile) Sync() error {
	op, ft := f.s.begin("sync", f.name, "", 0, 0, false)
	var err error
	if ft != nil && ft.Err != nil {
		err = ft.Err
	} else {
		err = f.in.Sync()
	}
	f.s.end(op, ft, err, 0)
	return err
}

func (f *seamFile) Truncate(size int64) error {
	op, ft := f.s.begin("truncate", f.name, "", 0, 0, true)
	var err error
	if ft != nil && ft.Err != nil {
		err = ft.Err
	} else {
		err = f.in.Truncate(size)
	}
	f.s.end(op, ft, err, 0)
	return err
}

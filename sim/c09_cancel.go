package sim

import (
	"bytes"
	"context"
	"fmt"
	"os"
	"path/filepath"
	"sort"
	"syscall"
	"time"

	"github.com/spf13/afero"

	"github.com/ARM-software/golang-utils/utils/commonerrors"
	"github.com/ARM-software/golang-utils/utils/filesystem"
)

func init() {
	Register(&Prop{
		ID:        "C09",
		Run:       runC09,
		Enumerate: enumC09,
		Level:     "fault_enumeration",
		Rule: "three parts. (A) context-aware stream helpers (ReadAll, ReadAtMost, CopyDataWithContext, CopyNWithContext, WriteString, ReadFileWithContextAndLimits, WriteToFile) over scripted sources/sinks: lengths 0..2^20 around buffer boundaries, bounds negative/0/below/equal/above, scripted chunking, zero-length reads, error at byte k, short writes, WriterTo/ReaderFrom present or not, context ended before the call or at the j-th Read/Write; " +
			"(B) every context-accepting filesystem entry point called with a context that is already cancelled / past its deadline on a populated tree: error kind, zero mutating backend operations, tree unchanged; " +
			"(C) every entry point re-executed with the context ending right after its k-th backend operation: for tiny and small trees EVERY k (exhaustive), for medium/large trees a seeded sample of k; cancellation and deadline (fake clock) variants; rename failing with EXDEV in some runs to reach Move's copy+remove fall-back. " +
			"One run of part C executes one (entry point, tree, backend) and all its k. non-trivial = a context ended mid-operation or a stream fault/bound was active; distinct = distinct configuration digest",
		Real:        []string{"utils/safeio (read.go, copy.go, write.go, error.go)", "utils/filesystem files.go, zip.go (every *WithContext* entry point incl. walks, listings, copies, moves, removals, chmod/chown, zip, unzip, hashing, garbage collection)", "utils/parallelisation (DetermineContextError)", "dolmen-go/contextio"},
		Stub:        []string{"source and sink streams: scripted objects", "disk: SimDisk and afero.MemMapFs behind the fault layer (operation counter, cancel-at-k, deadline-at-k on the synctest fake clock, EXDEV on rename)"},
		Assumptions: []string{"built with go1.26.8 (testing/synctest)", "the bound on backend operations after the context ended is B = 64 + 8 x tree depth, a constant chosen to be small against the hundreds of operations that remain in every sampled scenario; the largest value observed on the unchanged tree is reported as probe max-ops-after-context-end"},
	})
}

// fsEntry is one context-accepting entry point.
type fsEntry struct {
	Name     string
	Mutating bool
	NeedsZip bool
	// Concurrent: the entry point starts goroutines that use the filesystem; it
	// is run under the seeded scheduler (with an all-zero choice sequence) so
	// that the order of backend operations is reproducible.
	Concurrent bool
	// DenyRemove: in half of the runs every plain removal is refused with a permission error, which makes
	// the privileged entry point go through its escalation (chown, second attempt, forced removal)
	DenyRemove bool
	Run        func(ctx context.Context, fs filesystem.FS, w *fsCase) error
}

type fsCase struct {
	tree    treeSpec
	bigFile string
	reader  *ScriptedReader
}

const (
	wSrc  = "/w/src"
	wDst  = "/w/dst"
	wZip  = "/w/a.zip"
	wRoot = "/w"
)

var fsEntries = []fsEntry{
	{Name: "WalkWithContext", Run: func(ctx context.Context, fs filesystem.FS, w *fsCase) error {
		return fs.WalkWithContext(ctx, wSrc, func(string, os.FileInfo, error) error { return nil })
	}},
	{Name: "LsRecursive", Run: func(ctx context.Context, fs filesystem.FS, w *fsCase) error {
		_, err := fs.LsRecursive(ctx, wSrc, true)
		return err
	}},
	{Name: "LsRecursiveWithExclusionPatterns", Run: func(ctx context.Context, fs filesystem.FS, w *fsCase) error {
		_, err := fs.LsRecursiveWithExclusionPatterns(ctx, wSrc, false, "never-matches-anything")
		return err
	}},
	{Name: "ListDirTreeWithContext", Run: func(ctx context.Context, fs filesystem.FS, w *fsCase) error {
		var l []string
		return fs.ListDirTreeWithContext(ctx, wSrc, &l)
	}},
	{Name: "SubDirectoriesWithContext", Run: func(ctx context.Context, fs filesystem.FS, w *fsCase) error {
		_, err := fs.SubDirectoriesWithContext(ctx, wSrc)
		return err
	}},
	{Name: "CopyWithContext", Mutating: true, Run: func(ctx context.Context, fs filesystem.FS, w *fsCase) error {
		return fs.CopyWithContext(ctx, wSrc, wDst)
	}},
	{Name: "CopyWithContextAndExclusionPatterns", Mutating: true, Run: func(ctx context.Context, fs filesystem.FS, w *fsCase) error {
		return fs.CopyWithContextAndExclusionPatterns(ctx, wSrc, wDst, "never-matches-anything")
	}},
	{Name: "CopyToDirectoryWithContext", Mutating: true, Run: func(ctx context.Context, fs filesystem.FS, w *fsCase) error {
		return fs.CopyToDirectoryWithContext(ctx, wSrc, wDst)
	}},
	{Name: "CopyToFileWithContext", Mutating: true, Run: func(ctx context.Context, fs filesystem.FS, w *fsCase) error {
		return fs.CopyToFileWithContext(ctx, w.bigFile, "/w/copy.bin")
	}},
	{Name: "CopyBetweenFS", Mutating: true, Run: func(ctx context.Context, fs filesystem.FS, w *fsCase) error {
		return filesystem.CopyBetweenFS(ctx, fs, wSrc, fs, wDst)
	}},
	{Name: "MoveBetweenFS", Mutating: true, Run: func(ctx context.Context, fs filesystem.FS, w *fsCase) error {
		return filesystem.MoveBetweenFS(ctx, fs, wSrc, fs, wDst)
	}},
	{Name: "MoveWithContext", Mutating: true, Run: func(ctx context.Context, fs filesystem.FS, w *fsCase) error {
		return fs.MoveWithContext(ctx, wSrc, wDst)
	}},
	{Name: "RemoveWithContext", Mutating: true, Run: func(ctx context.Context, fs filesystem.FS, w *fsCase) error {
		return fs.RemoveWithContext(ctx, wSrc)
	}},
	{Name: "RemoveWithContextAndExclusionPatterns", Mutating: true, Run: func(ctx context.Context, fs filesystem.FS, w *fsCase) error {
		return fs.RemoveWithContextAndExclusionPatterns(ctx, wSrc, "never-matches-anything")
	}},
	{Name: "RemoveWithPrivileges", Mutating: true, DenyRemove: true, Run: func(ctx context.Context, fs filesystem.FS, w *fsCase) error {
		return fs.RemoveWithPrivileges(ctx, wSrc)
	}},
	{Name: "CleanDirWithContext", Mutating: true, Run: func(ctx context.Context, fs filesystem.FS, w *fsCase) error {
		return fs.CleanDirWithContext(ctx, wSrc)
	}},
	{Name: "CleanDirWithContextAndExclusionPatterns", Mutating: true, Run: func(ctx context.Context, fs filesystem.FS, w *fsCase) error {
		return fs.CleanDirWithContextAndExclusionPatterns(ctx, wSrc, "never-matches-anything")
	}},
	{Name: "ChmodRecursively", Mutating: true, Run: func(ctx context.Context, fs filesystem.FS, w *fsCase) error {
		return fs.ChmodRecursively(ctx, wSrc, 0o750)
	}},
	{Name: "ChownRecursively", Mutating: true, Run: func(ctx context.Context, fs filesystem.FS, w *fsCase) error {
		return fs.ChownRecursively(ctx, wSrc, os.Getuid(), os.Getgid())
	}},
	{Name: "ZipWithContext", Mutating: true, Run: func(ctx context.Context, fs filesystem.FS, w *fsCase) error {
		return fs.ZipWithContext(ctx, wSrc, "/w/out.zip")
	}},
	{Name: "ZipWithContextAndLimits", Mutating: true, Run: func(ctx context.Context, fs filesystem.FS, w *fsCase) error {
		return fs.ZipWithContextAndLimits(ctx, wSrc, "/w/out.zip", filesystem.DefaultZipLimits())
	}},
	{Name: "UnzipWithContext", Mutating: true, NeedsZip: true, Run: func(ctx context.Context, fs filesystem.FS, w *fsCase) error {
		_, err := fs.UnzipWithContext(ctx, wZip, "/w/unz")
		return err
	}},
	{Name: "UnzipWithContextAndLimits", Mutating: true, NeedsZip: true, Run: func(ctx context.Context, fs filesystem.FS, w *fsCase) error {
		_, err := fs.UnzipWithContextAndLimits(ctx, wZip, "/w/unz", filesystem.DefaultZipLimits())
		return err
	}},
	{Name: "IsZipWithContext", NeedsZip: true, Run: func(ctx context.Context, fs filesystem.FS, w *fsCase) error {
		_, err := fs.IsZipWithContext(ctx, wZip)
		return err
	}},
	{Name: "ReadFileWithContext", Run: func(ctx context.Context, fs filesystem.FS, w *fsCase) error {
		_, err := fs.ReadFileWithContext(ctx, w.bigFile)
		return err
	}},
	{Name: "ReadFileWithContextAndLimits", Run: func(ctx context.Context, fs filesystem.FS, w *fsCase) error {
		_, err := fs.ReadFileWithContextAndLimits(ctx, w.bigFile, filesystem.DefaultLimits())
		return err
	}},
	{Name: "WriteFileWithContext", Mutating: true, Run: func(ctx context.Context, fs filesystem.FS, w *fsCase) error {
		return fs.WriteFileWithContext(ctx, "/w/new.bin", genBytes(5, 150000), 0o644)
	}},
	{Name: "WriteToFile", Mutating: true, Run: func(ctx context.Context, fs filesystem.FS, w *fsCase) error {
		w.reader = &ScriptedReader{Data: genBytes(6, 200000), Chunks: []int{4096}, ErrAt: -1, CancelAtRead: -1, Ctx: ctx}
		_, err := fs.WriteToFile(ctx, "/w/new2.bin", w.reader, 0o644)
		return err
	}},
	{Name: "FileHashWithContext", Run: func(ctx context.Context, fs filesystem.FS, w *fsCase) error {
		_, err := fs.FileHashWithContext(ctx, "SHA256", w.bigFile)
		return err
	}},
	{Name: "GarbageCollectWithContext", Mutating: true, Concurrent: true, Run: func(ctx context.Context, fs filesystem.FS, w *fsCase) error {
		return fs.GarbageCollectWithContext(ctx, wSrc, time.Nanosecond)
	}},
}

func enumC09(tier string) [][]uint32 {
	var out [][]uint32
	trees := []uint32{0, 3} // raw Pick(3,3,2,1) values selecting the tiny and small tree classes
	for e := range fsEntries {
		for _, t := range trees {
			for b := uint32(0); b < 2; b++ {
				for variant := uint32(0); variant < 2; variant++ {
					// raw Pick(3,2,5) value 5 selects part C
					out = append(out, []uint32{5, uint32(e), t, b, variant, 0})
				}
			}
		}
		// medium tree (raw Pick(3,3,2,1) value 6), sampled k: loops that dominate the remaining work show up here
		out = append(out, []uint32{5, uint32(e), 6, 0, 0, 0, 7, 1}, []uint32{5, uint32(e), 6, 0, 0, 0, 8, 0}) // tree seed 7 wide, tree seed 8 balanced
		out = append(out, []uint32{5, uint32(e), 6, 0, 0, 0, 11, 0})                                          // tree seed 11: mostly directories
		if tier == "thorough" {
			for b := uint32(0); b < 2; b++ {
				// raw values 6 and 8 select the medium and large tree classes
				out = append(out, []uint32{5, uint32(e), 6, b, 0, 1}, []uint32{5, uint32(e), 8, b, 1, 0})
			}
		}
	}
	// part B: every entry point x {cancelled, expired} x backend
	for e := range fsEntries {
		for b := uint32(0); b < 2; b++ {
			for variant := uint32(0); variant < 2; variant++ {
				out = append(out, []uint32{3, uint32(e), 3, b, variant, 0})
			}
		}
	}
	return out
}

func runC09(rc *RunCtx) {
	switch rc.Ch.Pick("part", 3, 2, 5) {
	case 0:
		// stream cases cost microseconds: a batch of them per run
		for i := 0; i < 200 && len(rc.Res.Violations) == 0; i++ {
			runC09Streams(rc)
		}
		rc.Res.Steps = 200
	case 1:
		runC09FS(rc, true)
	default:
		runC09FS(rc, false)
	}
}

type c09World struct {
	backend afero.Fs
	seam    *Seam
	vfs     filesystem.FS
	cleanup func()
	cs      *fsCase
}

func newC09World(b fsBackend, tree treeSpec, needZip bool, exdev bool) (*c09World, error) {
	back, cleanup := b.New()
	if err := buildTree(back, wSrc, tree); err != nil {
		cleanup()
		return nil, err
	}
	cs := &fsCase{tree: tree}
	// the largest file is the "big file" of single-file entry points; add one when the tree has none
	best := -1
	for i, f := range tree.Files {
		if best < 0 || f.Size > tree.Files[best].Size {
			best = i
		}
	}
	if best < 0 || tree.Files[best].Size < 70000 {
		if err := afero.WriteFile(back, "/w/big.bin", genBytes(99, 180000), 0o644); err != nil {
			cleanup()
			return nil, err
		}
		cs.bigFile = "/w/big.bin"
	} else {
		cs.bigFile = filepath.Join(wSrc, filepath.FromSlash(tree.Files[best].Path))
	}
	if needZip {
		if err := newVFS(back).Zip(wSrc, wZip); err != nil {
			cleanup()
			return nil, fmt.Errorf("zip: %w", err)
		}
	}
	seam := NewSeam(back, 1)
	w := &c09World{backend: back, seam: seam, cleanup: cleanup, cs: cs}
	w.vfs = newVFS(seam)
	_ = exdev
	return w, nil
}

func runC09FS(rc *RunCtx, preCancelled bool) {
	ch := rc.Ch
	res := rc.Res
	ei := ch.Intn("entry", len(fsEntries))
	entry := fsEntries[ei]
	treeClass := ch.Pick("tree", 3, 3, 2, 1)
	backendIdx := ch.Intn("backend", 2)
	deadlineVariant := ch.Intn("variant", 2) == 1
	exdev := ch.Intn("exdev", 2) == 1
	treeSeed := uint64(ch.Intn("treeseed", 1000))
	backend := []fsBackend{simDiskBackend(), memMapBackend()}[backendIdx]
	wide := ch.Intn("wide", 2) == 1
	tree := genTreeShape(treeClass, treeSeed, true, wide)
	part := "C"
	if preCancelled {
		part = "B"
	}
	res.Config = fmt.Sprintf("part=%s entry=%s tree=class%d/seed%d/wide=%v(%d entries, depth %d) backend=%s variant=%s renameEXDEV=%v", part, entry.Name, treeClass, treeSeed, wide, tree.Entries(), tree.Depth, backend.Name, map[bool]string{false: "cancel", true: "deadline"}[deadlineVariant], exdev)
	res.Digest = hashStrings(res.Config)
	res.NonTrivial = true
	bound := 64 + 8*tree.Depth
	viol := func(sig, msg string) {
		res.Violate("cancellation", "fs|"+entry.Name+"|"+sig, fmt.Sprintf("%s: %s", res.Config, msg))
	}
	// one execution inside a bubble; k<0: context done before the call; k>=big: never ends
	type execResult struct {
		err         error
		ops         int
		opsAfter    int
		mutAfter    int
		readsAfter  int
		balance     int
		openPaths   []string
		before      map[string]string
		after       map[string]string
		infra       string
		deadlock    string
		mutBefore   int
		firstMutant string
		forcedAfter int
	}
	wantFullDump := false
	exec := func(k int) execResult {
		var r execResult
		r.deadlock = Bubble(rc.T, func() {
			w, err := newC09World(backend, tree, entry.NeedsZip, exdev)
			if err != nil {
				r.infra = err.Error()
				return
			}
			defer w.cleanup()
			var ctx context.Context
			var cancel context.CancelFunc
			if deadlineVariant {
				ctx, cancel = context.WithDeadline(context.Background(), time.Now().Add(time.Hour))
			} else {
				ctx, cancel = context.WithCancel(context.Background())
			}
			defer cancel()
			end := func() {
				if deadlineVariant {
					time.Sleep(time.Hour + time.Nanosecond)
				} else {
					cancel()
				}
			}
			ended := false
			before := func(op *Op) *Fault {
				if ended {
					r.opsAfter++
					if op.Mutating {
						r.mutAfter++
						if r.firstMutant == "" {
							r.firstMutant = op.Name + " " + op.Path
						}
					}
				}
				if entry.DenyRemove && exdev && op.Name == "remove" {
					return &Fault{Err: &os.PathError{Op: "remove", Path: op.Path, Err: syscall.EACCES}}
				}
				if ended && op.Name == "forceremove" {
					r.forcedAfter++
				}
				if exdev && op.Name == "rename" {
					return &Fault{Err: &os.LinkError{Op: "rename", Old: op.Path, New: op.Path2, Err: syscall.EXDEV}}
				}
				return nil
			}
			seenOps := 0
			after := func(op *Op) {
				idx := seenOps
				seenOps++
				if !ended && idx == k {
					ended = true
					end()
				}
			}
			var sim *Sim
			if entry.Concurrent {
				sim = NewSim(NewReplayChooser(nil))
				sim.Latencies = []time.Duration{time.Microsecond}
				sim.MaxSteps = 1 << 30
				sim.Attach(w.seam)
				sim.Decide = before
				sim.OnEffect = after
			} else {
				w.seam.Before = before
				w.seam.After = after
			}
			if k < 0 {
				ended = true
				end()
				r.before = dumpFs(w.backend, wRoot)
			}
			if sim != nil {
				sim.Go("call", func() { r.err = entry.Run(ctx, w.vfs, w.cs) })
				sim.Run(nil)
			} else {
				r.err = entry.Run(ctx, w.vfs, w.cs)
			}
			r.ops = w.seam.OpCount()
			r.balance = w.seam.Balance()
			r.openPaths = w.seam.OpenPaths()
			if k < 0 || (r.err == nil && (k < 1<<30 || wantFullDump)) {
				r.after = dumpFs(w.backend, wRoot)
			}
			if w.cs.reader != nil {
				r.readsAfter = w.cs.reader.ReadsAfterCtxDone()
			}
		})
		return r
	}
	if preCancelled {
		r := exec(-1)
		res.Steps = 1
		res.Fault("context-done-before-call")
		if r.infra != "" {
			res.Infra = r.infra
			return
		}
		if r.deadlock != "" {
			viol("blocked", r.deadlock)
			return
		}
		want := commonerrors.ErrCancelled
		if deadlineVariant {
			want = commonerrors.ErrTimeout
		}
		if !commonerrors.Any(r.err, want) {
			viol("done-before-call|wrong-kind", fmt.Sprintf("context already done (%v): returned %v", want, r.err))
		}
		if r.mutAfter > 0 {
			viol("done-before-call|mutating-operation", fmt.Sprintf("context already done: %d mutating backend operations were issued, first: %s", r.mutAfter, r.firstMutant))
		} else if d := diffDumps(r.before, r.after, 5); len(d) > 0 {
			viol("done-before-call|tree-changed", fmt.Sprintf("context already done but the tree changed: %v", d))
		}
		if r.balance != 0 {
			viol("handle-leak", fmt.Sprintf("%d handles left open: %v", r.balance, r.openPaths))
		}
		if rc.KeepTrace {
			res.Trace = []string{res.Config, fmt.Sprintf("err=%v ops=%d mutating-after=%d", r.err, r.opsAfter, r.mutAfter)}
		}
		return
	}
	// part C: full run first (its final tree is the complete result)
	wantFullDump = true
	full := exec(1 << 30)
	wantFullDump = false
	if full.infra != "" {
		res.Infra = full.infra
		return
	}
	if full.deadlock != "" {
		viol("blocked", "fault-free run: "+full.deadlock)
		return
	}
	if full.err != nil {
		viol("fault-free-run-failed", fmt.Sprintf("without any cancellation the call failed: %v", full.err))
		return
	}
	if full.balance != 0 {
		viol("handle-leak", fmt.Sprintf("fault-free run: %d handles left open: %v", full.balance, full.openPaths))
	}
	n := full.ops
	var ks []int
	if treeClass <= 1 || n <= 400 {
		for k := 0; k < n; k++ {
			ks = append(ks, k)
		}
	} else {
		seen := map[int]bool{}
		add := func(k int) {
			if k >= 0 && k < n && !seen[k] {
				seen[k] = true
				ks = append(ks, k)
			}
		}
		for i := 0; i < 6; i++ {
			add(i)
			add(n - 1 - i)
		}
		for i := 0; i < 40; i++ {
			add(ch.Intn("k", n))
		}
		sort.Ints(ks)
	}
	maxAfter := 0
	for _, k := range ks {
		r := exec(k)
		res.Steps++
		res.Fault("context-end-at-op-k")
		if r.infra != "" {
			res.Infra = r.infra
			return
		}
		if r.deadlock != "" {
			viol("blocked", fmt.Sprintf("context ended after operation %d of %d: %s", k, n, r.deadlock))
			return
		}
		if r.opsAfter > maxAfter {
			maxAfter = r.opsAfter
		}
		remaining := n - 1 - k
		// (no upper limit: the fan-out dispatches every entry at once, so on small trees the unchanged code performs ALL the
		// remaining work after the context ended - there is nothing left that would tell "more than that" apart)
		if entry.Concurrent && r.opsAfter > bound {
			// workers already started (one goroutine per directory entry) each finish their current existence / kind tests
			viol("in-flight-workers-finish-their-step", fmt.Sprintf("context ended after backend operation %d of %d: %d further backend operations were issued by the %d parallel workers already in flight (bound for a sequential operation %d); returned %v", k, n, r.opsAfter, tree.Entries(), bound, r.err))
		} else if r.opsAfter > bound {
			viol("keeps-working-after-context-end", fmt.Sprintf("context ended after backend operation %d of %d: %d further backend operations were issued (bound %d, %d remained in the full run); returned %v", k, n, r.opsAfter, bound, remaining, r.err))
		}
		if r.err == nil {
			if remaining > bound {
				viol("nil-after-context-end", fmt.Sprintf("context ended after operation %d of %d but the call returned nil", k, n))
			} else if d := diffDumps(full.after, r.after, 5); len(d) > 0 && !entry.Concurrent {
				// success may only be reported if the work was actually completed
				viol("nil-after-context-end-with-incomplete-result", fmt.Sprintf("context ended after operation %d of %d; the call returned nil but its result is incomplete (complete -> actual): %v", k, n, d))
			}
		} else if !isCtxKind(r.err) && !commonerrors.Any(r.err, commonerrors.ErrEOF) {
			viol("wrong-kind-after-context-end", fmt.Sprintf("context ended after operation %d of %d: returned %v", k, n, r.err))
		}
		// a forced removal that directly follows the operation during which the context ended is the one bounded step the
		// property allows (the last context test preceded that operation); anything else means escalation after the end was seen
		if r.forcedAfter > 0 && r.opsAfter > 1 {
			viol("forced-removal-after-context-end", fmt.Sprintf("context ended after operation %d of %d: the privileged recursive removal was still issued afterwards; returned %v", k, n, r.err))
		}
		if r.readsAfter > 0 {
			viol("read-after-context-done", fmt.Sprintf("context ended after operation %d: %d reads reached the source stream afterwards", k, r.readsAfter))
		}
		if r.balance != 0 {
			viol("handle-leak", fmt.Sprintf("context ended after operation %d of %d: %d handles left open: %v", k, n, r.balance, r.openPaths))
		}
	}
	res.ProbeN("executions", len(ks)+1)
	if entry.Concurrent {
		res.ProbeN("max:ops-after-context-end(parallel garbage collection)", maxAfter)
	} else {
		res.ProbeN("max:ops-after-context-end(sequential entry points)", maxAfter)
	}
	if rc.KeepTrace {
		res.Trace = []string{res.Config, fmt.Sprintf("full run: %d backend operations; %d cancellation instants executed; most operations after the context ended: %d (bound %d)", n, len(ks), maxAfter, bound)}
	}
}

var _ = bytes.Equal

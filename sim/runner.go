package sim

import (
	"encoding/json"
	"fmt"
	"math/rand"
	"os"
	"sort"
	"strconv"
	"strings"
	"testing"
	"testing/synctest"
	"time"
)

// Violation of a property found in one run.
type Violation struct {
	Kind   string `json:"kind"`
	Sig    string `json:"sig"`
	Detail string `json:"detail"`
}

// RunResult is what one simulated run reports.
type RunResult struct {
	Digest     uint64         `json:"digest"`
	NonTrivial bool           `json:"nontrivial"`
	Steps      int            `json:"steps"`
	SimNanos   int64          `json:"sim_nanos"`
	Violations []Violation    `json:"violations,omitempty"`
	Faults     map[string]int `json:"faults,omitempty"`
	Probes     map[string]int `json:"probes,omitempty"`
	Outcome    string         `json:"outcome,omitempty"`
	Config     string         `json:"config,omitempty"`
	Trace      []string       `json:"trace,omitempty"`
	Infra      string         `json:"infra,omitempty"` // harness trouble (exit 2), never a violation
}

func (r *RunResult) Violate(kind, sig, detail string) {
	for _, v := range r.Violations {
		if v.Sig == sig {
			return
		}
	}
	r.Violations = append(r.Violations, Violation{Kind: kind, Sig: sig, Detail: detail})
}
func (r *RunResult) Fault(k string) {
	if r.Faults == nil {
		r.Faults = map[string]int{}
	}
	r.Faults[k]++
}
func (r *RunResult) FaultN(k string, n int) {
	if n <= 0 {
		return
	}
	if r.Faults == nil {
		r.Faults = map[string]int{}
	}
	r.Faults[k] += n
}
func hasKind(r *RunResult, kind string) bool {
	for _, v := range r.Violations {
		if v.Kind == kind {
			return true
		}
	}
	return false
}
func (r *RunResult) Probe(k string) {
	if r.Probes == nil {
		r.Probes = map[string]int{}
	}
	r.Probes[k]++
}
func (r *RunResult) ProbeN(k string, n int) {
	if r.Probes == nil {
		r.Probes = map[string]int{}
	}
	r.Probes[k] += n
}

// RunCtx is handed to a property for one run.
type RunCtx struct {
	T         *testing.T
	Ch        *Chooser
	Res       *RunResult
	KeepTrace bool
	Tier      string
}

// Prop is one property check.
type Prop struct {
	ID string
	// Run executes one run; every decision comes from rc.Ch.
	Run func(rc *RunCtx)
	// Enumerate returns choice prefixes of the cases that a tier enumerates
	// exhaustively before random exploration starts (may be nil).
	Enumerate func(tier string) [][]uint32
	// Components / notes for the evidence file.
	Real, Stub []string
	Rule       string
	Level      string
	// ReplayAttempts > 1: the property depends on real interleavings inside a round
	// (race engine); a replay re-executes the script up to that many times.
	ReplayAttempts int
	Assumptions    []string
}

var devVerbose bool

var Props = map[string]*Prop{}

func Register(p *Prop) { Props[p.ID] = p }

// Bubble runs f inside a synctest bubble and reports a bubble deadlock (all
// goroutines blocked for ever) instead of panicking.
func Bubble(t *testing.T, f func()) (deadlock string) {
	if raceBuild {
		// a race report inside the bubble fails the bubble's test and synctest.Test then calls FailNow on the test it
		// was given: contained in a sub-test, so that the worker goes on (the report itself is read from the race log)
		t.Run("bubble", func(st *testing.T) { deadlock = bubble(st, f) })
		return deadlock
	}
	return bubble(t, f)
}

func bubble(t *testing.T, f func()) (deadlock string) {
	defer func() {
		if r := recover(); r != nil {
			deadlock = fmt.Sprint(r)
		}
	}()
	synctest.Test(t, func(t *testing.T) {
		f()
		// let sleepers finish: once the root goroutine returns the bubble
		// clock stops and a sleeping goroutine would count as a deadlock
		for i := 0; i < 3; i++ {
			time.Sleep(time.Minute)
			synctest.Wait()
		}
	})
	return ""
}

// ExecRun performs one run of p with the given chooser.
func ExecRun(t *testing.T, p *Prop, ch *Chooser, keepTrace bool, tier string) *RunResult {
	res := &RunResult{}
	rc := &RunCtx{T: t, Ch: ch, Res: res, KeepTrace: keepTrace, Tier: tier}
	// pin the global math/rand stream (retry-go's RandomDelay draws from it)
	rand.Seed(int64(ch.Seed64("randseed") | 1)) //nolint:staticcheck
	func() {
		defer func() {
			if r := recover(); r != nil {
				res.Infra = fmt.Sprintf("harness panic: %v", r)
			}
		}()
		p.Run(rc)
	}()
	return res
}

// ---- worker protocol

type WorkerSpec struct {
	Prop       string   `json:"prop"`
	Mode       string   `json:"mode"` // explore | replay | recheck
	Tier       string   `json:"tier"`
	BaseSeed   uint64   `json:"base_seed"`
	Start      uint64   `json:"start"`  // first run index
	Stride     uint64   `json:"stride"` // index step (number of workers)
	MaxRuns    uint64   `json:"max_runs"`
	BudgetSec  float64  `json:"budget_sec"`
	Out        string   `json:"out"`
	ReplayDir  string   `json:"replay_dir"`
	ReplayFile string   `json:"replay_file"`
	Indices    []uint64 `json:"indices"` // recheck mode
	ShrinkSec  float64  `json:"shrink_sec"`
	KnownSigs  []string `json:"known_sigs"` // signatures listed as known findings: recorded, not minimised
}

type FoundViolation struct {
	Violation
	Index  uint64 `json:"index"`
	Seed   uint64 `json:"seed"`
	Replay string `json:"replay"`
	Count  int    `json:"count"`
}

type Sample struct {
	Index  uint64   `json:"index"`
	Seed   uint64   `json:"seed"`
	Config string   `json:"config"`
	Steps  int      `json:"steps"`
	Trace  []string `json:"trace_head"`
}

type WorkerOut struct {
	Prop       string                     `json:"prop"`
	Runs       uint64                     `json:"runs"`
	Enumerated uint64                     `json:"enumerated"`
	EnumTotal  uint64                     `json:"enum_total"`
	NonTrivial uint64                     `json:"nontrivial"`
	Steps      uint64                     `json:"steps"`
	SimNanos   int64                      `json:"sim_nanos"`
	Faults     map[string]int             `json:"faults"`
	Probes     map[string]int             `json:"probes"`
	Outcomes   map[string]int             `json:"outcomes"`
	Violations map[string]*FoundViolation `json:"violations"`
	Digests    map[uint64]uint64          `json:"-"`
	DigestList [][2]uint64                `json:"digest_list,omitempty"` // recheck mode: index,digest
	NTDigests  []uint64                   `json:"nt_digests"`            // distinct digests of non-trivial runs
	Samples    []Sample                   `json:"samples"`
	Infra      []string                   `json:"infra"`
	WallSec    float64                    `json:"wall_sec"`
	SelfCheck  [2]int                     `json:"self_check"` // re-executed, mismatches
	Divergent  []string                   `json:"divergent,omitempty"`
	Meta       map[string]interface{}     `json:"meta"`
}

// ReplayFile is the on-disk form of a (minimised) failing run.
type ReplayFile struct {
	Property string   `json:"property"`
	Tier     string   `json:"tier"`
	Seed     uint64   `json:"seed"`
	Index    uint64   `json:"index"`
	Choices  []uint32 `json:"choices"`
	Sig      string   `json:"expected_signature"`
	Kind     string   `json:"kind"`
	Detail   string   `json:"detail"`
	Config   string   `json:"config"`
	Trace    []string `json:"trace"`
	Shrunk   bool     `json:"shrunk"`
	OrigLen  int      `json:"original_choices"`
}

func chooserFor(p *Prop, enum [][]uint32, base uint64, idx uint64) (*Chooser, uint64) {
	seed := Mix(base, p.ID, idx)
	ch := NewChooser(seed)
	if idx < uint64(len(enum)) {
		ch.in = enum[idx]
		ch.prefix = true
	}
	return ch, seed
}

// selfCheckEvery: every n-th explored run is executed a second time from its recorded choices (VERIF_SELFCHECK_EVERY
// overrides it for determinism hunts).
var selfCheckEvery = func() uint64 {
	if v, err := strconv.Atoi(os.Getenv("VERIF_SELFCHECK_EVERY")); err == nil && v > 0 {
		return uint64(v)
	}
	return 64
}()

// RunWorker executes a worker spec (called from TestWorker).
func RunWorker(t *testing.T, spec *WorkerSpec) *WorkerOut {
	p := Props[spec.Prop]
	out := &WorkerOut{Prop: spec.Prop, Faults: map[string]int{}, Probes: map[string]int{}, Outcomes: map[string]int{}, Violations: map[string]*FoundViolation{}}
	if p == nil {
		out.Infra = append(out.Infra, "unknown property "+spec.Prop)
		return out
	}
	out.Meta = map[string]interface{}{"rule": p.Rule, "real": p.Real, "stub": p.Stub, "level": p.Level, "assumptions": p.Assumptions}
	start := time.Now()
	var enum [][]uint32
	if p.Enumerate != nil {
		enum = p.Enumerate(spec.Tier)
	}
	out.EnumTotal = uint64(len(enum))
	nt := map[uint64]struct{}{}
	one := func(idx uint64, keepSample bool) {
		ch, seed := chooserFor(p, enum, spec.BaseSeed, idx)
		if devVerbose {
			fmt.Printf("run %d seed %d at %v\n", idx, seed, time.Since(start))
		}
		traceDir := os.Getenv("VERIF_TRACE_DIR")
		res := ExecRun(t, p, ch, keepSample || traceDir != "", spec.Tier)
		if traceDir != "" {
			_ = os.WriteFile(fmt.Sprintf("%s/%d.%x.%d.trace", traceDir, idx, res.Digest, os.Getpid()), []byte(res.Config+"\n"+strings.Join(res.Trace, "\n")), 0o644)
		}
		out.Runs++
		if idx < uint64(len(enum)) {
			out.Enumerated++
		}
		out.Steps += uint64(res.Steps)
		out.SimNanos += res.SimNanos
		for k, v := range res.Faults {
			out.Faults[k] += v
		}
		for k, v := range res.Probes {
			if strings.HasPrefix(k, "max:") {
				if v > out.Probes[k] {
					out.Probes[k] = v
				}
				continue
			}
			out.Probes[k] += v
		}
		if res.Outcome != "" {
			out.Outcomes[res.Outcome]++
		}
		if res.Infra != "" {
			if len(out.Infra) < 5 {
				out.Infra = append(out.Infra, fmt.Sprintf("run %d: %s", idx, res.Infra))
			}
			return
		}
		if res.NonTrivial {
			out.NonTrivial++
			nt[res.Digest] = struct{}{}
		}
		if spec.Mode == "recheck" || idx%61 == 0 {
			out.DigestList = append(out.DigestList, [2]uint64{idx, res.Digest})
		}
		if keepSample {
			tr := res.Trace
			if len(tr) > 25 {
				tr = tr[:25]
			}
			out.Samples = append(out.Samples, Sample{Index: idx, Seed: seed, Config: res.Config, Steps: res.Steps, Trace: tr})
		}
		// in-worker determinism self check on a sample of runs
		if spec.Mode == "explore" && idx%selfCheckEvery == uint64(0) {
			ch2 := NewReplayChooser(ch.Rec)
			res2 := ExecRun(t, p, ch2, false, spec.Tier)
			out.SelfCheck[0]++
			if res2.Digest != res.Digest {
				out.SelfCheck[1]++
				if len(out.Divergent) < 20 {
					out.Divergent = append(out.Divergent, fmt.Sprintf("run %d: replay of recorded choices gave another digest (%x vs %x)", idx, res.Digest, res2.Digest))
				}
			}
		}
		for _, v := range res.Violations {
			fv := out.Violations[v.Sig]
			if fv != nil {
				fv.Count++
				continue
			}
			fv = &FoundViolation{Violation: v, Index: idx, Seed: seed, Count: 1}
			out.Violations[v.Sig] = fv
			if spec.Mode == "explore" && spec.ReplayDir != "" {
				fv.Replay = shrinkAndSave(t, p, spec, ch.Rec, v, seed, idx)
			}
		}
	}
	switch spec.Mode {
	case "recheck":
		for _, idx := range spec.Indices {
			one(idx, false)
		}
	default:
		stride := spec.Stride
		if stride == 0 {
			stride = 1
		}
		n := uint64(0)
		for idx := spec.Start; ; idx += stride {
			if spec.MaxRuns > 0 && n >= spec.MaxRuns {
				break
			}
			// enumerated cases are always completed; the time budget only
			// bounds the random exploration that follows them
			if idx >= uint64(len(enum)) && spec.BudgetSec > 0 && time.Since(start).Seconds() > spec.BudgetSec {
				break
			}
			one(idx, n < 2)
			n++
		}
	}
	for d := range nt {
		out.NTDigests = append(out.NTDigests, d)
	}
	sort.Slice(out.NTDigests, func(i, j int) bool { return out.NTDigests[i] < out.NTDigests[j] })
	out.WallSec = time.Since(start).Seconds()
	return out
}

func hasSig(res *RunResult, sig string) bool {
	for _, v := range res.Violations {
		if v.Sig == sig {
			return true
		}
	}
	return false
}

// shrinkAndSave minimises the choice sequence while the same violation
// signature persists, then writes the replay file and returns its path.
func shrinkAndSave(t *testing.T, p *Prop, spec *WorkerSpec, rec []uint32, v Violation, seed, idx uint64) string {
	best := append([]uint32(nil), rec...)
	orig := len(best)
	known := false
	for _, k := range spec.KnownSigs {
		if k == v.Sig {
			known = true
		}
	}
	deadline := time.Now().Add(time.Duration(spec.ShrinkSec * float64(time.Second)))
	if spec.ShrinkSec == 0 {
		deadline = time.Now().Add(20 * time.Second)
	}
	tries := 0
	try := func(c []uint32) bool {
		if tries > 600 || time.Now().After(deadline) {
			return false
		}
		tries++
		r := ExecRun(t, p, NewReplayChooser(c), false, spec.Tier)
		return r.Infra == "" && hasSig(r, v.Sig)
	}
	// the first two choices seed math/rand: leave them alone
	const keep = 2
	shrunk := false
	if !known && try(best) { // only shrink when the recorded choices reproduce at all
		// 1. truncate the tail
		for n := len(best) / 2; n >= 1; n /= 2 {
			for len(best)-n >= keep {
				c := best[:len(best)-n]
				if try(c) {
					best = append([]uint32(nil), c...)
					shrunk = true
				} else {
					break
				}
			}
		}
		// 2. delete blocks
		for bs := 8; bs >= 1; bs /= 2 {
			for i := len(best) - bs; i >= keep; i-- {
				if i+bs > len(best) {
					continue
				}
				c := append(append([]uint32(nil), best[:i]...), best[i+bs:]...)
				if try(c) {
					best = c
					shrunk = true
				}
			}
		}
		// 3. zero / lower values
		for i := keep; i < len(best); i++ {
			if best[i] == 0 {
				continue
			}
			c := append([]uint32(nil), best...)
			c[i] = 0
			if try(c) {
				best = c
				shrunk = true
				continue
			}
			if best[i] > 1 {
				c = append([]uint32(nil), best...)
				c[i] = best[i] / 2
				if try(c) {
					best = c
					shrunk = true
				}
			}
		}
	}
	final := ExecRun(t, p, replayWithLabels(best), true, spec.Tier)
	rf := &ReplayFile{Property: p.ID, Tier: spec.Tier, Seed: seed, Index: idx, Choices: best, Sig: v.Sig, Kind: v.Kind, Detail: v.Detail, Config: final.Config, Trace: final.Trace, Shrunk: shrunk, OrigLen: orig}
	for _, fvv := range final.Violations {
		if fvv.Sig == v.Sig {
			rf.Detail = fvv.Detail
		}
	}
	if !hasSig(final, v.Sig) {
		// not reproducible from its own choices: harness nondeterminism. Keep
		// the unshrunk sequence; the driver's fresh-process validation reports it.
		rf.Choices = rec
		rf.Shrunk = false
	}
	_ = os.MkdirAll(spec.ReplayDir, 0o755)
	name := fmt.Sprintf("%s/%s-%d-%s.json", spec.ReplayDir, p.ID, idx, sigSlug(v.Sig))
	b, _ := json.MarshalIndent(rf, "", " ")
	if err := os.WriteFile(name, b, 0o644); err != nil {
		return ""
	}
	return name
}

func replayWithLabels(c []uint32) *Chooser {
	ch := NewReplayChooser(c)
	return ch
}

func sigSlug(s string) string {
	var b strings.Builder
	for _, r := range s {
		switch {
		case r >= 'a' && r <= 'z', r >= 'A' && r <= 'Z', r >= '0' && r <= '9':
			b.WriteRune(r)
		default:
			b.WriteByte('_')
		}
		if b.Len() >= 60 {
			break
		}
	}
	return b.String()
}

// Replay re-executes a replay file and returns the result.
func Replay(t *testing.T, rf *ReplayFile) *RunResult {
	p := Props[rf.Property]
	if p == nil {
		return &RunResult{Infra: "unknown property " + rf.Property}
	}
	res := ExecRun(t, p, NewReplayChooser(rf.Choices), true, rf.Tier)
	for i := 1; i < p.ReplayAttempts && !hasSig(res, rf.Sig); i++ {
		res = ExecRun(t, p, NewReplayChooser(rf.Choices), true, rf.Tier)
	}
	return res
}

//go:build race

package sim

// raceBuild: the worker was built with the race detector. A data race reported while a synctest bubble runs marks the
// bubble's test as failed and synctest then ends the calling test: bubbles are therefore run in a sub-test of their own.
const raceBuild = true

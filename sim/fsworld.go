package sim

import (
	"crypto/sha256"
	"encoding/hex"
	"fmt"
	"os"
	"path/filepath"
	"sort"
	"strings"

	"github.com/spf13/afero"

	"github.com/ARM-software/golang-utils/utils/filesystem"
)

type fileSpec struct {
	Path string // relative, slash separated
	Size int
	Seed uint64
}

type treeSpec struct {
	Dirs  []string
	Files []fileSpec
	Depth int
}

func (t treeSpec) Entries() int { return len(t.Dirs) + len(t.Files) }

// genTree builds a deterministic tree description. class: 0 tiny (3..8 entries),
// 1 small (10..25), 2 medium (80..160), 3 large (350..500 entries).
func genTree(class int, seed uint64, bigFiles bool) treeSpec {
	return genTreeShape(class, seed, bigFiles, false)
}

// genTreeShape: wide trees keep nearly all files in very few directories (hundreds of siblings).
func genTreeShape(class int, seed uint64, bigFiles bool, wide bool) treeSpec {
	s := seed*2654435761 + uint64(class) + 1
	rnd := func(n int) int { return int(splitmix64(&s) % uint64(n)) }
	var target int
	switch class {
	case 0:
		target = 3 + rnd(6)
	case 1:
		target = 10 + rnd(16)
	case 2:
		target = 80 + rnd(81)
	default:
		target = 350 + rnd(151)
	}
	t := treeSpec{}
	dirs := []string{""}
	depthOf := map[string]int{"": 0}
	// a quarter of the trees consist mostly of (empty) directories, siblings of each other: long runs of directory
	// entries in listings and archives
	dirHeavy := seed%4 == 3 && class >= 1
	for t.Entries() < target {
		parent := dirs[rnd(len(dirs))]
		if dirHeavy && rnd(6) != 0 {
			name := fmt.Sprintf("e%d", len(t.Dirs))
			p := strings.TrimPrefix(parent+"/"+name, "/")
			t.Dirs = append(t.Dirs, p)
			if depthOf[parent]+1 > t.Depth {
				t.Depth = depthOf[parent] + 1
			}
			if len(dirs) < 3 {
				dirs = append(dirs, p)
				depthOf[p] = depthOf[parent] + 1
			}
			continue
		}
		if (!wide && rnd(4) == 0 || wide && len(t.Dirs) < 3 && rnd(8) == 0) && depthOf[parent] < 4 {
			name := fmt.Sprintf("d%d", len(t.Dirs))
			p := strings.TrimPrefix(parent+"/"+name, "/")
			t.Dirs = append(t.Dirs, p)
			dirs = append(dirs, p)
			depthOf[p] = depthOf[parent] + 1
			if depthOf[p] > t.Depth {
				t.Depth = depthOf[p]
			}
			continue
		}
		name := fmt.Sprintf("f%d.txt", len(t.Files))
		p := strings.TrimPrefix(parent+"/"+name, "/")
		size := 1 + rnd(200)
		switch rnd(10) {
		case 0:
			size = 0
		case 1:
			size = 4000 + rnd(5000)
		case 2:
			if bigFiles {
				size = 33000 + rnd(70000)
			}
		}
		t.Files = append(t.Files, fileSpec{Path: p, Size: size, Seed: uint64(len(t.Files)) + seed*31})
	}
	return t
}

func (f fileSpec) Content() []byte { return genBytes(f.Seed+uint64(f.Size)*7, f.Size) }

// buildTree creates the tree under root directly on the backend (no seam).
func buildTree(b afero.Fs, root string, t treeSpec) error {
	if err := b.MkdirAll(root, 0o755); err != nil {
		return err
	}
	for _, d := range t.Dirs {
		if err := b.MkdirAll(filepath.Join(root, filepath.FromSlash(d)), 0o755); err != nil {
			return err
		}
	}
	for _, f := range t.Files {
		if err := afero.WriteFile(b, filepath.Join(root, filepath.FromSlash(f.Path)), f.Content(), 0o644); err != nil {
			return err
		}
	}
	return nil
}

// dumpFs lists everything under root: path -> "d" | "f:<len>:<sha256 prefix>".
func dumpFs(b afero.Fs, root string) map[string]string {
	out := map[string]string{}
	_ = afero.Walk(b, root, func(p string, info os.FileInfo, err error) error {
		if err != nil || info == nil {
			return nil
		}
		rel, _ := filepath.Rel(root, p)
		rel = filepath.ToSlash(rel)
		if rel == "." {
			return nil
		}
		if info.IsDir() {
			out[rel] = "d"
			return nil
		}
		data, rerr := afero.ReadFile(b, p)
		if rerr != nil {
			out[rel] = "f:unreadable"
			return nil
		}
		h := sha256.Sum256(data)
		out[rel] = fmt.Sprintf("f:%d:%s", len(data), hex.EncodeToString(h[:6]))
		return nil
	})
	return out
}

func diffDumps(a, b map[string]string, limit int) []string {
	var out []string
	keys := map[string]bool{}
	for k := range a {
		keys[k] = true
	}
	for k := range b {
		keys[k] = true
	}
	var ks []string
	for k := range keys {
		ks = append(ks, k)
	}
	sort.Strings(ks)
	for _, k := range ks {
		if a[k] != b[k] {
			out = append(out, fmt.Sprintf("%s: %q -> %q", k, a[k], b[k]))
			if len(out) >= limit {
				break
			}
		}
	}
	return out
}

// fsBackend names a backend and creates a fresh instance.
type fsBackend struct {
	Name string
	New  func() (afero.Fs, func())
}

func simDiskBackend() fsBackend {
	return fsBackend{Name: "SimDisk", New: func() (afero.Fs, func()) { return NewSimDisk().View(1), func() {} }}
}
func memMapBackend() fsBackend {
	return fsBackend{Name: "MemMapFs", New: func() (afero.Fs, func()) { return afero.NewMemMapFs(), func() {} }}
}
func osBackend() (fsBackend, bool) {
	scratch := os.Getenv("VERIF_SCRATCH")
	if scratch == "" {
		return fsBackend{}, false
	}
	return fsBackend{Name: "OsFs", New: func() (afero.Fs, func()) {
		d, err := os.MkdirTemp(scratch, "osfs-")
		if err != nil {
			return afero.NewMemMapFs(), func() {}
		}
		return afero.NewBasePathFs(afero.NewOsFs(), d), func() { _ = os.RemoveAll(d) }
	}}, true
}

func newVFS(b afero.Fs) filesystem.FS {
	return filesystem.NewVirtualFileSystem(b, filesystem.Custom, filesystem.IdentityPathConverterFunc)
}

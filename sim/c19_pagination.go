package sim

import (
	"context"
	"errors"
	"fmt"
	"time"

	"github.com/ARM-software/golang-utils/utils/collection/pagination"
)

func init() {
	Register(&Prop{
		ID:    "C19",
		Run:   runC19,
		Level: "exploration",
		Rule: "one run = one paginator (static, dynamic, static stream, dynamic stream) over a scripted page server (0..20 pages of 0..10 unique items, empty pages anywhere, page-fetch failure at a drawn position, iterator failure, fetch latency in simulated time; streams: future pages appearing at drawn simulated instants, DryUp issued by a second goroutine) " +
			"driven by a generated consumer program mixing HasNext / GetNext / Stop / Close / context cancellation, then drained; " +
			"non-trivial = at least two pages or an empty page, or a fault / stop / future page in the script; distinct = distinct (script, yielded sequence, instants) digest",
		Real:        []string{"utils/collection/pagination pagination.go, stream.go (all four paginator constructors, HasNext/GetNext/Stop/Close/DryUp)", "utils/parallelisation (cancel store, SleepWithContext)"},
		Stub:        []string{"remote collection: scripted page server (pages, iterators, fetch latency and failures)", "time: testing/synctest fake clock (back-off, grace period, arrival instants of future pages)"},
		Assumptions: []string{"built with go1.26.8 (testing/synctest)", "go-deadlock detection disabled", "instants of DryUp/cancellation carry a 1ns offset so that they never tie with a poll instant (Go's scheduler would decide the order)"},
	})
}

var errFetch = errors.New("scripted page fetch failure")

type pageServer struct {
	pages      [][]int // static part
	futures    []futurePage
	nextFuture int
	failFetch  int  // index of the page whose fetch fails (-1 never); 0 = first page
	failOnce   bool // transient: only the first fetch of that page fails
	failedOnce bool
	failIter   int // index of the page whose iterator cannot be created (-1 never)
	latency    time.Duration
	fetches    int
	closed     bool // stream closed by the server (HasFuture false)
	ignoreCtx  bool // the fetcher does not look at its context: a request in flight when the context ends still returns its page
	start      time.Time
	log        []string
}

type futurePage struct {
	at    time.Duration
	items []int
	chain [][]int // pages linked from this future page through next links (the link to the future is on the last one)
}

type simIterator struct {
	items []int
	pos   int
}

func (it *simIterator) HasNext() bool { return it.pos < len(it.items) }
func (it *simIterator) GetNext() (interface{}, error) {
	if it.pos >= len(it.items) {
		return nil, errors.New("iterator exhausted")
	}
	v := it.items[it.pos]
	it.pos++
	return v, nil
}

// simPage implements IStaticPage, IPage, IStaticPageStream and IStream.
type simPage struct {
	srv    *pageServer
	idx    int // index in srv.pages, or -1 for a future page
	items  []int
	future bool
	fchain [][]int // future page: the pages still to come through next links
}

func (p *simPage) HasNext() bool {
	if p.future {
		return len(p.fchain) > 0
	}
	return p.idx+1 < len(p.srv.pages)
}

// nextOfFuture fetches the next page of the chain hanging off a future page.
func (p *simPage) nextOfFuture(ctx context.Context) (*simPage, error) {
	s := p.srv
	s.fetches++
	if err := ctx.Err(); err != nil {
		return nil, err
	}
	if s.latency > 0 {
		if s.ignoreCtx {
			time.Sleep(s.latency)
		} else {
			select {
			case <-ctx.Done():
				return nil, ctx.Err()
			case <-time.After(s.latency):
			}
		}
	}
	if len(p.fchain) == 0 {
		return nil, errors.New("no such page")
	}
	return &simPage{srv: s, idx: -1, items: p.fchain[0], future: true, fchain: p.fchain[1:]}, nil
}
func (p *simPage) GetItemIterator() (pagination.IIterator, error) {
	if !p.future && p.srv.failIter == p.idx {
		return nil, errFetch
	}
	return &simIterator{items: p.items}, nil
}
func (p *simPage) GetItemCount() (int64, error) { return int64(len(p.items)), nil }

func (s *pageServer) fetch(ctx context.Context, idx int) (*simPage, error) {
	s.fetches++
	if err := ctx.Err(); err != nil {
		return nil, err // a remote fetch with a finished context fails
	}
	if s.latency > 0 {
		if s.ignoreCtx {
			time.Sleep(s.latency)
		} else {
			select {
			case <-ctx.Done():
				return nil, ctx.Err()
			case <-time.After(s.latency):
			}
		}
	}
	if s.failFetch == idx && !(s.failOnce && s.failedOnce) {
		s.failedOnce = true
		return nil, errFetch
	}
	if idx >= len(s.pages) {
		return nil, errors.New("no such page")
	}
	return &simPage{srv: s, idx: idx, items: s.pages[idx]}, nil
}

func (p *simPage) GetNext(ctx context.Context) (pagination.IPage, error) {
	if p.future {
		np, err := p.nextOfFuture(ctx)
		if err != nil {
			return nil, err
		}
		return np, nil
	}
	np, err := p.srv.fetch(ctx, p.idx+1)
	if err != nil {
		return nil, err
	}
	return np, nil
}

// HasFuture: only the last page of a chain carries the link to the future (a page that has a next page does not).
func (p *simPage) HasFuture() bool { return !p.srv.closed && !p.HasNext() }

func (s *pageServer) future(ctx context.Context) (*simPage, error) {
	s.fetches++
	if err := ctx.Err(); err != nil {
		return nil, err
	}
	if s.latency > 0 {
		select {
		case <-ctx.Done():
			return nil, ctx.Err()
		case <-time.After(s.latency):
		}
	}
	now := time.Since(s.start)
	if s.nextFuture < len(s.futures) && s.futures[s.nextFuture].at <= now {
		f := s.futures[s.nextFuture]
		s.nextFuture++
		return &simPage{srv: s, idx: -1, items: f.items, future: true, fchain: f.chain}, nil
	}
	return &simPage{srv: s, idx: -1, items: nil, future: true}, nil
}

func (p *simPage) GetFuture(ctx context.Context) (pagination.IStream, error) {
	f, err := p.srv.future(ctx)
	if err != nil {
		return nil, err
	}
	return f, nil
}

type genericPaginator interface {
	HasNext() bool
	GetNext() (interface{}, error)
	Stop() context.CancelFunc
	Close() error
}

func runC19(rc *RunCtx) {
	ch := rc.Ch
	res := rc.Res
	kind := ch.Intn("kind", 4) // 0 static, 1 dynamic, 2 static stream, 3 dynamic stream
	stream := kind >= 2
	srv := &pageServer{failFetch: -1, failIter: -1}
	npages := ch.Pick("npages", 1, 2, 3, 3, 1)
	switch npages {
	case 0:
		npages = 1
	case 1:
		npages = 2
	case 2:
		npages = 3 + ch.Intn("np", 4)
	case 3:
		npages = 1 + ch.Intn("np", 8)
	default:
		npages = 20 - ch.Intn("np", 4)
	}
	next := 0
	var model []int
	for i := 0; i < npages; i++ {
		n := 0
		if ch.Pick("empty", 2, 1) == 0 {
			n = 1 + ch.Intn("items", 10)
		}
		pg := make([]int, n)
		for j := range pg {
			pg[j] = next
			next++
		}
		srv.pages = append(srv.pages, pg)
	}
	staticItems := next
	srv.latency = []time.Duration{0, 200 * time.Microsecond, 3 * time.Millisecond}[ch.Intn("lat", 3)]
	srv.ignoreCtx = ch.Intn("ignorectx", 2) == 1
	fault := ch.Pick("fault", 6, 2, 1)
	switch fault {
	case 1:
		srv.failFetch = ch.Intn("failfetch", npages)
		srv.failOnce = srv.failFetch > 0 && ch.Intn("transient", 2) == 1
	case 2:
		srv.failIter = ch.Intn("failiter", npages)
	}
	grace := []time.Duration{20 * time.Millisecond, 100 * time.Millisecond, 300 * time.Millisecond}[ch.Intn("grace", 3)]
	backoff := []time.Duration{time.Millisecond, 5 * time.Millisecond, 10 * time.Millisecond}[ch.Intn("backoff", 3)]
	var dryAt time.Duration
	if stream {
		nf := ch.Intn("nfutures", 5)
		t := time.Duration(0)
		for i := 0; i < nf; i++ {
			t += time.Duration(1+ch.Intn("gap", 400)) * time.Millisecond
			n := ch.Intn("fitems", 5)
			pg := make([]int, n)
			for j := range pg {
				pg[j] = next
				next++
			}
			fp := futurePage{at: t, items: pg}
			// one future page in four continues through next links (0..2 pages, possibly empty ones)
			if ch.Intn("fchain", 4) == 0 {
				for k, nk := 0, 1+ch.Intn("fchainlen", 2); k < nk; k++ {
					cn := ch.Intn("fchainitems", 4)
					cp := make([]int, cn)
					for j := range cp {
						cp[j] = next
						next++
					}
					fp.chain = append(fp.chain, cp)
				}
			}
			srv.futures = append(srv.futures, fp)
		}
		dryAt = time.Duration(ch.Intn("dryat", 1500))*time.Millisecond + 1
	}
	stopMode := ch.Pick("stop", 6, 1, 1, 1) // 0 none, 1 Stop, 2 Close, 3 context cancel
	stopAfter := ch.Intn("stopafter", next+2)
	// asyncStopAt > 0: the stop is issued by another goroutine at that simulated instant (1ns off every other
	// instant), e.g. while a page request is in flight, instead of between two consumer calls
	var asyncStopAt time.Duration
	if stopMode != 0 && ch.Intn("asyncstop", 2) == 1 {
		asyncStopAt = time.Duration(ch.Intn("asyncstopat", 40000))*time.Microsecond + time.Nanosecond
		stopAfter = 1 << 30
	}
	// consumer program before the drain
	nops := ch.Intn("nops", 12)
	prog := make([]int, nops)
	for i := range prog {
		prog[i] = ch.Pick("op", 3, 3, 1) // 0 HasNext, 1 GetNext, 2 HasNext twice
	}
	// a slow consumer: one pause longer than the grace period somewhere during the iteration (streams only)
	thinkAt, thinkFor := -1, time.Duration(0)
	if stream && ch.Intn("slowconsumer", 4) == 0 {
		thinkAt = ch.Intn("thinkat", staticItems+1)
		thinkFor = grace + time.Duration(1+ch.Intn("thinkfor", 600))*time.Millisecond
	}
	res.Config = fmt.Sprintf("slowConsumer=(after %d items: %v) kind=%d pages=%v futures=%v latency=%v failFetch=%d(transient=%v) failIter=%d grace=%v backoff=%v dryAt=%v stop=%d after %d items asyncStopAt=%v fetcherIgnoresCtx=%v prog=%v", thinkAt, thinkFor, kind, srv.pages, srv.futures, srv.latency, srv.failFetch, srv.failOnce, srv.failIter, grace, backoff, dryAt, stopMode, stopAfter, asyncStopAt, srv.ignoreCtx, prog)
	for _, p := range srv.pages {
		model = append(model, p...)
	}
	for _, f := range srv.futures {
		model = append(model, f.items...)
		for _, cp := range f.chain {
			model = append(model, cp...)
		}
	}
	// items that are reachable without waiting for the future (static part, up to the first failing page)
	reachable := staticItems
	{
		cut0 := -1
		if srv.failFetch > 0 {
			cut0 = srv.failFetch
		}
		if srv.failIter > 0 && (cut0 < 0 || srv.failIter < cut0) {
			cut0 = srv.failIter
		}
		if cut0 >= 0 {
			reachable = 0
			for i := 0; i < cut0; i++ {
				reachable += len(srv.pages[i])
			}
		}
	}
	retried := false
	getFailedEarly := ""
	var yielded []int
	var events []string
	var ctorErr error
	ctorNil := false
	var endAt time.Duration = -1
	stopped := false
	afterStopYield := false
	inconsistent := ""
	dl := Bubble(rc.T, func() {
		srv.start = time.Now()
		ctx, cancel := context.WithCancel(context.Background())
		defer cancel()
		var p genericPaginator
		firstStatic := func(c context.Context) (pagination.IStaticPage, error) {
			pg, err := srv.fetch(c, 0)
			if err != nil {
				return nil, err
			}
			return pg, nil
		}
		nextStatic := func(c context.Context, cur pagination.IStaticPage) (pagination.IStaticPage, error) {
			if sp := cur.(*simPage); sp.future {
				np, err := sp.nextOfFuture(c)
				if err != nil {
					return nil, err
				}
				return np, nil
			}
			pg, err := srv.fetch(c, cur.(*simPage).idx+1)
			if err != nil {
				return nil, err
			}
			return pg, nil
		}
		switch kind {
		case 0:
			pp, err := pagination.NewStaticPagePaginator(ctx, firstStatic, nextStatic)
			ctorErr = err
			if pp != nil {
				p = pp
			}
		case 1:
			pp, err := pagination.NewCollectionPaginator(ctx, func(c context.Context) (pagination.IPage, error) {
				pg, err := srv.fetch(c, 0)
				if err != nil {
					return nil, err
				}
				return pg, nil
			})
			ctorErr = err
			if pp != nil {
				p = pp
			}
		case 2:
			pp, err := pagination.NewStaticPageStreamPaginator(ctx, grace, backoff, func(c context.Context) (pagination.IStaticPageStream, error) {
				pg, err := srv.fetch(c, 0)
				if err != nil {
					return nil, err
				}
				return pg, nil
			}, nextStatic, func(c context.Context, cur pagination.IStaticPageStream) (pagination.IStaticPageStream, error) {
				f, err := srv.future(c)
				if err != nil {
					return nil, err
				}
				return f, nil
			})
			ctorErr = err
			if pp != nil {
				p = pp
			}
		default:
			pp, err := pagination.NewStreamPaginator(ctx, grace, backoff, func(c context.Context) (pagination.IStream, error) {
				pg, err := srv.fetch(c, 0)
				if err != nil {
					return nil, err
				}
				return pg, nil
			})
			ctorErr = err
			if pp != nil {
				p = pp
			}
		}
		if p == nil || ctorErr != nil {
			ctorNil = p == nil
			return
		}
		if stream {
			sp := p.(interface{ DryUp() error })
			t := time.AfterFunc(dryAt, func() { _ = sp.DryUp() })
			defer t.Stop()
		}
		doStop := func() {
			stopped = true
			switch stopMode {
			case 1:
				p.Stop()()
			case 2:
				_ = p.Close()
			case 3:
				cancel()
			}
			events = append(events, fmt.Sprintf("stop(%d)@%v", stopMode, time.Since(srv.start)))
		}
		get := func() bool {
			stoppedBefore := stopped // a call already in progress when the stop happens may still complete
			v, err := p.GetNext()
			if err != nil {
				events = append(events, "G:err")
				if !stopped && len(yielded) < reachable && getFailedEarly == "" {
					getFailedEarly = fmt.Sprintf("GetNext returned %v after %d items although %d items are reachable", err, len(yielded), reachable)
				}
				return false
			}
			if stoppedBefore {
				afterStopYield = true
			}
			yielded = append(yielded, v.(int))
			events = append(events, fmt.Sprintf("G:%v", v))
			if len(yielded) == thinkAt {
				time.Sleep(thinkFor)
				events = append(events, fmt.Sprintf("pause(%v)", thinkFor))
			}
			if stopMode != 0 && !stopped && len(yielded) >= stopAfter {
				doStop()
			}
			return true
		}
		has := func() bool {
			h := p.HasNext()
			events = append(events, fmt.Sprintf("H:%v", h))
			return h
		}
		if stopMode != 0 && stopAfter == 0 {
			doStop()
		}
		if asyncStopAt > 0 {
			t := time.AfterFunc(asyncStopAt, doStop)
			defer t.Stop()
		}
		if thinkAt == 0 {
			time.Sleep(thinkFor)
		}
		for _, op := range prog {
			switch op {
			case 0:
				has()
			case 1:
				get()
			default:
				f0 := srv.failedOnce
				h1 := has()
				h2 := has()
				if h1 != h2 && !stream && !(srv.failOnce && !f0 && srv.failedOnce && !h1 && h2) { // (a transient fetch failure answered the first call)
					inconsistent = fmt.Sprintf("two consecutive HasNext calls returned %v then %v", h1, h2)
				}
			}
		}
		// drain
		for i := 0; i < 400; i++ {
			h := has()
			if !h {
				// HasNext=false: GetNext must not yield (checked below through the model)
				break
			}
			if !get() && !stream {
				inconsistent = "HasNext returned true but the following GetNext failed"
				break
			}
		}
		if srv.failOnce && srv.failedOnce && !stream && !stopped {
			// the fetch that failed was a transient fault: a consumer that simply asks again gets the rest
			retried = true
			for i := 0; i < 400; i++ {
				if !has() {
					break
				}
				if !get() {
					inconsistent = "HasNext returned true but the following GetNext failed"
					break
				}
			}
		}
		endAt = time.Since(srv.start)
		if _, err := p.GetNext(); err == nil && !stream {
			inconsistent = "GetNext succeeded after HasNext had returned false"
		}
	})
	res.Steps = len(events)
	res.SimNanos = int64(endAt)
	res.NonTrivial = npages >= 2 || fault != 0 || stopMode != 0 || len(srv.futures) > 0
	res.Digest = hashStrings(res.Config, fmt.Sprint(yielded), fmt.Sprint(ctorErr), fmt.Sprint(endAt))
	if rc.KeepTrace {
		res.Trace = append([]string{res.Config, fmt.Sprintf("ctorErr=%v yielded=%v endAt=%v", ctorErr, yielded, endAt)}, events...)
	}
	kname := []string{"static", "dynamic", "static-stream", "dynamic-stream"}[kind]
	if dl != "" {
		res.Violate("blocked", "blocked|"+kname, fmt.Sprintf("%s: %s", res.Config, dl))
		return
	}
	// constructor failures are reported as errors
	ctorShouldFail := srv.failFetch == 0 || srv.failIter == 0
	if ctorShouldFail {
		if ctorErr == nil {
			what := "first-page-fetch"
			if srv.failIter == 0 {
				what = "first-page-iterator"
			}
			res.Violate("constructor", "constructor-failure-not-reported|"+kname+"|"+what, fmt.Sprintf("%s: constructor returned err=nil (paginator nil: %v) although the %s failed", res.Config, ctorNil, what))
		}
		return
	}
	if ctorErr != nil {
		res.Violate("constructor", "constructor-spurious-error|"+kname, fmt.Sprintf("%s: %v", res.Config, ctorErr))
		return
	}
	if inconsistent != "" {
		res.Violate("protocol", "protocol|"+kname+"|"+inconsistent, fmt.Sprintf("%s: %s; events=%v", res.Config, inconsistent, events))
	}
	if getFailedEarly != "" {
		res.Violate("protocol", "protocol|"+kname+"|GetNext failed with items remaining", fmt.Sprintf("%s: %s; events=%v", res.Config, getFailedEarly, events))
	}
	if afterStopYield {
		res.Violate("yield-after-stop", "yield-after-stop|"+kname, fmt.Sprintf("%s: an item was yielded after Stop/Close/cancellation; events=%v", res.Config, events))
	}
	// in order and exactly once: a prefix of the model. After an injected page-fetch
	// failure a stream paginator carries on with future pages (the failed pages are
	// skipped): then only order and at-most-once are required beyond the failure.
	relaxed := stream && (srv.failFetch > 0 || srv.failIter > 0)
	mi := 0
	for i, v := range yielded {
		if relaxed {
			for mi < len(model) && model[mi] != v {
				mi++
			}
			if mi >= len(model) {
				res.Violate("sequence", "sequence-order-or-duplicate|"+kname, fmt.Sprintf("%s: yielded %v is not an in-order, duplicate-free selection of %v", res.Config, yielded, model))
				return
			}
			mi++
			continue
		}
		if i >= len(model) || model[i] != v {
			res.Violate("sequence", "sequence-not-a-prefix|"+kname, fmt.Sprintf("%s: yielded %v is not a prefix of %v", res.Config, yielded, model))
			return
		}
	}
	// how much must have been yielded
	expect := staticItems
	cut := -1
	if srv.failFetch > 0 {
		cut = srv.failFetch
	}
	if srv.failIter > 0 && (cut < 0 || srv.failIter < cut) {
		cut = srv.failIter
	}
	if cut >= 0 {
		expect = 0
		for i := 0; i < cut; i++ {
			expect += len(srv.pages[i])
		}
	}
	if retried && srv.failIter < 0 {
		expect = staticItems // the retry after the transient fetch failure reaches everything
	}
	if srv.failOnce && !retried && !stream {
		// the consumer program itself may or may not have asked again before the stop: order and at-most-once were
		// checked above, how far it got is not determined by the script
		return
	}
	if stopMode != 0 {
		if stopAfter < expect {
			expect = stopAfter
		}
		if len(yielded) > stopAfter && stopAfter >= 0 && stopped {
			// items yielded strictly after the stop are flagged above; the one that triggered the stop is fine
			_ = expect
		}
	}
	if !stream {
		if asyncStopAt > 0 {
			if len(yielded) > expect {
				res.Violate("sequence", "sequence-too-long|"+kname, fmt.Sprintf("%s: yielded %d items, at most %d exist", res.Config, len(yielded), expect))
			}
			return
		}
		if len(yielded) != expect {
			res.Violate("sequence", "sequence-incomplete|"+kname, fmt.Sprintf("%s: yielded %d items %v, expected exactly the first %d of %v", res.Config, len(yielded), yielded, expect, model))
		}
		return
	}
	// streams: static part as above (unless cut), plus future pages that appeared in time
	if cut >= 0 || stopMode != 0 {
		if len(yielded) < expect && cut < 0 && asyncStopAt == 0 {
			res.Violate("sequence", "sequence-incomplete|"+kname, fmt.Sprintf("%s: yielded %d items, expected at least %d before the stop", res.Config, len(yielded), expect))
		}
		return
	}
	if thinkAt >= 0 {
		// with a pause in the iteration the instants at which future pages are requested are the consumer's: the pages
		// already published through next links are owed whatever the pace, the future ones are not judged
		if len(yielded) < staticItems {
			res.Violate("sequence", "stream-static-items-lost-with-slow-consumer|"+kname, fmt.Sprintf("%s: yielded %d items %v; the %d items of the pages linked through next must be yielded however slowly the consumer iterates", res.Config, len(yielded), yielded, staticItems))
		}
		return
	}
	slack := 2*backoff + 2*srv.latency + time.Millisecond
	must := staticItems
	var lastArrival time.Duration
	for _, f := range srv.futures {
		n := len(f.items)
		for _, cp := range f.chain {
			n += len(cp)
		}
		if f.at <= dryAt+grace-slack-time.Duration(len(f.chain))*(srv.latency+backoff) {
			must += n
		}
		if n > 0 {
			lastArrival = f.at
		}
	}
	if len(yielded) < must {
		res.Violate("sequence", "stream-future-items-lost|"+kname, fmt.Sprintf("%s: yielded %d items %v; every page that appeared before DryUp(%v)+grace(%v)-%v must be yielded: %d items", res.Config, len(yielded), yielded, dryAt, grace, slack, must))
	}
	// termination window: not before DryUp+grace (minus slack), and soon after the later of that and the last arrival
	earliest := dryAt + grace - slack
	if endAt < earliest {
		res.Violate("stream-end", "stream-ended-early|"+kname, fmt.Sprintf("%s: HasNext returned false at %v, before DryUp(%v)+grace(%v)", res.Config, endAt, dryAt, grace))
	}
	latest := dryAt
	if lastArrival > latest {
		latest = lastArrival
	}
	latest += grace + slack + time.Duration(len(model))*(srv.latency+backoff)
	if endAt > latest+2*time.Second {
		res.Violate("stream-end", "stream-ended-late|"+kname, fmt.Sprintf("%s: HasNext returned false only at %v", res.Config, endAt))
	}
}

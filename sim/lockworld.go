package sim

import (
	"context"
	"fmt"
	"sort"
	"strings"
	"sync"
	"time"

	"github.com/ARM-software/golang-utils/utils/commonerrors"
	"github.com/ARM-software/golang-utils/utils/filesystem"
)

// lockWorld is the system under simulation shared by C01 and C17: several
// "processes" (clients), each with its own seam, VFS and lock object, over one
// SimDisk. It watches the disk events and the API results and maintains the
// facts the oracles need.
type lockWorld struct {
	rc      *RunCtx
	sim     *Sim
	disk    *SimDisk
	period  time.Duration
	lockID  string
	lockDir string
	hbFile  string
	stalls  bool
	quiet   bool // do not report C01-class violations (the world is used by another property's check)

	mu        sync.Mutex
	clients   []*lockClient
	holders   map[int]*hold
	curOwner  int // owner of the current lock directory (-1: none)
	curGen    int
	prevObs   time.Time            // observable sign-of-life time of the current generation
	lastMk    map[int]int          // client -> generation of the directory it created last
	removed   map[int]removalEvent // generation -> how it was removed
	history   []lockEvent
	seq       int
	contended int
	// stat results handed to each client (reset by the harness around IsStale calls)
	statSeen map[int][]statObs
	lastBeat map[int]time.Time // client -> time of last heartbeat attempt
	// judged[c]: what client c's latest IsStale evaluation can have concluded,
	// from the modification time it was handed and the instant it got it
	judged           map[int]judgement
	pendingStat      map[int]*DiskEvent
	pendingDestroyed map[int]removalEvent // generation -> removal that hit it before its creator's acquire returned
	releasingGen     map[int]int          // client -> generation it is currently releasing (Unlock in progress)
	// removes counts successful removals inside the lock directory per client (C17)
	removes map[int]int
}

type lockClient struct {
	id     int
	seam   *Seam
	vfs    *filesystem.VFS
	lock   filesystem.ILock
	ctx    context.Context
	cancel context.CancelFunc
	dead   bool
}

type hold struct {
	client int
	gen    int
	since  time.Time
	lastHB time.Time
	maxGap time.Duration // largest silence between heartbeat attempts
	maxAge time.Duration // largest observable age of its sign of life while its generation was current
}

type judgement struct {
	gen   int
	stale bool
	age   time.Duration
}

type removalEvent struct {
	by      int
	summary string
	basis   string
	at      time.Time
}

type lockEvent struct {
	seq    int
	client int
	what   string // acquire | release
}

type statObs struct {
	path  string
	mtime time.Time
	isDir bool
	at    time.Time // instant the result was handed to the caller
}

// lock ids: what the id looks like must not matter
var lockIDs = []string{"L", "L", "config", "unfinished job", "a.b-c", "lock-info"}

func newLockWorld(rc *RunCtx, sim *Sim, nClients int, override bool) *lockWorld {
	lockID := lockIDs[rc.Ch.Intn("lockid", len(lockIDs))]
	w := &lockWorld{rc: rc, sim: sim, disk: NewSimDisk(), period: 50 * time.Millisecond, lockID: lockID,
		lockDir: "/locks/lockfile-" + lockID, holders: map[int]*hold{}, curOwner: -1,
		lastMk: map[int]int{}, removed: map[int]removalEvent{}, statSeen: map[int][]statObs{}, lastBeat: map[int]time.Time{},
		judged: map[int]judgement{}, pendingStat: map[int]*DiskEvent{}, pendingDestroyed: map[int]removalEvent{}, releasingGen: map[int]int{}, removes: map[int]int{}}
	w.hbFile = w.lockDir + "/" + lockID + ".lock"
	_ = w.disk.View(0).MkdirAll("/locks", 0o755)
	w.disk.OnEvent = w.onEvent
	sim.OnEffect = w.onEffect
	sim.OnDone = w.onDone
	for c := 1; c <= nClients; c++ {
		w.addClient(c, override)
	}
	return w
}

func (w *lockWorld) addClient(c int, override bool) *lockClient {
	return w.addClientWithID(c, override, w.lockID)
}

// addClientWithID: id may be another spelling of the same lock id (surrounding white space is not significant).
func (w *lockWorld) addClientWithID(c int, override bool, id string) *lockClient {
	seam := NewSeam(w.disk.View(c), c)
	w.sim.Attach(seam)
	vfs := filesystem.NewVirtualFileSystem(seam, filesystem.Custom, filesystem.IdentityPathConverterFunc).(*filesystem.VFS)
	ctx, cancel := context.WithCancel(context.Background())
	cl := &lockClient{id: c, seam: seam, vfs: vfs, ctx: ctx, cancel: cancel,
		lock: filesystem.NewGenericRemoteLockFile(vfs, id, "/locks", override)}
	w.clients = append(w.clients, cl)
	return cl
}

func (w *lockWorld) violate(kind, sig, detail string) {
	if w.quiet {
		return
	}
	w.rc.Res.Violate(kind, sig, detail)
}

func (w *lockWorld) cancelAll() {
	for _, c := range w.clients {
		c.cancel()
	}
}

// lockStackSummary condenses the repository frames of the current goroutine
// into the chain of lock API methods, outermost first.
func lockStackSummary() string {
	fr := RepoStack(3)
	var chain []string
	for i := len(fr) - 1; i >= 0; i-- {
		f := fr[i]
		j := strings.Index(f, "RemoteLockFile).")
		if j < 0 {
			continue
		}
		m := f[j+len("RemoteLockFile)."):]
		if k := strings.Index(m, "."); k >= 0 {
			m = m[:k] // closures
		}
		if m == "Lock" || m == "LockWithTimeout" {
			continue
		}
		if len(chain) > 0 && chain[len(chain)-1] == m {
			continue
		}
		chain = append(chain, m)
	}
	if len(chain) == 0 {
		return "direct"
	}
	return strings.Join(chain, ">")
}

// holdValidLocked: "the holder's heartbeat keeps running" - the holder is in
// the set (alive, release not begun), its heartbeat goroutine never was silent
// for long, and (stall configurations) the sign of life observable on disk
// never was old enough for an observer to legitimately see the lock as stale.
func (w *lockWorld) holdValidLocked(h *hold, now time.Time) bool {
	if h == nil {
		return false
	}
	gap := h.maxGap
	if g := now.Sub(h.lastHB); g > gap {
		gap = g
	}
	if gap > 2*w.period-20*time.Millisecond {
		return false
	}
	age := h.maxAge
	if w.curGen == h.gen && w.curOwner >= 0 {
		if a := now.Sub(w.prevObs); a > age {
			age = a
		}
	}
	return age <= 2*w.period-5*time.Millisecond
}

// observableLocked reads from the disk (lock already held by the emitting
// operation) the time IsStale would look at: newest heartbeat file, else the directory.
func (w *lockWorld) observableLocked() (time.Time, bool) {
	n, e := w.disk.lookup(w.lockDir)
	if e != nil || !n.dir {
		return time.Time{}, false
	}
	if len(n.order) == 0 {
		return n.mtime, true
	}
	var newest time.Time
	for _, k := range n.order {
		if m := n.kids[k].mtime; m.After(newest) {
			newest = m
		}
	}
	return newest, true
}

func (w *lockWorld) onEvent(ev *DiskEvent) {
	now := time.Now()
	w.mu.Lock()
	defer w.mu.Unlock()
	inLock := ev.Path == w.lockDir || strings.HasPrefix(ev.Path, w.lockDir+"/")
	if inLock && ev.Mutating && w.curOwner >= 0 {
		// age reached by the sign of life that was observable until now
		if h := w.holders[w.curOwner]; h != nil && h.gen == w.curGen {
			if a := now.Sub(w.prevObs); a > h.maxAge {
				h.maxAge = a
			}
		}
	}
	switch {
	case ev.Path == w.lockDir && (ev.Op == "mkdir" || ev.Op == "mkdirall"):
		if ev.Err == nil {
			if w.curOwner >= 0 && w.curGen == ev.Gen {
				// MkdirAll on an existing directory: nothing created
				w.contended++
				w.lastMk[ev.Client] = ev.Gen
			} else {
				w.curOwner, w.curGen = ev.Owner, ev.Gen
				w.lastMk[ev.Client] = ev.Gen
			}
			w.beatLocked(ev.Client, now)
		} else {
			w.contended++
		}
	case ev.Path == w.lockDir && (ev.Op == "remove" || ev.Op == "removeall") && ev.Err == nil:
		w.removes[ev.Client]++
		sum := lockStackSummary()
		// on what basis did the remover act?
		basis := "no-stale-observation"
		if h := w.holders[ev.Client]; h != nil || w.releasingGen[ev.Client] != 0 {
			basis = "own-release-of-another-generation"
			if w.releasingGen[ev.Client] == ev.Gen || (h != nil && h.gen == ev.Gen) {
				basis = "own-release"
			}
		} else if j, ok := w.judged[ev.Client]; ok {
			switch {
			case !j.stale:
				basis = "fresh-observation"
			case j.gen == ev.Gen:
				basis = "stale-observation-of-this-generation"
			default:
				basis = "stale-observation-of-older-generation"
			}
		}
		rem := removalEvent{by: ev.Client, summary: sum, basis: basis, at: now}
		w.removed[ev.Gen] = rem
		victim := w.holders[ev.Owner]
		legit := basis == "stale-observation-of-this-generation" && w.stalls
		if ev.Owner != ev.Client && victim != nil && victim.gen == ev.Gen && w.holdValidLocked(victim, now) && !legit {
			w.violate("destructive-release",
				fmt.Sprintf("destructive-remove|by=%s|basis=%s|victim=live-holder", sum, basis),
				fmt.Sprintf("t=%v client %d (in %s; %s) removed the lock directory generation %d that client %d created and currently holds (heartbeat running)", w.sim.Elapsed(), ev.Client, sum, basis, ev.Gen, ev.Owner))
		} else if ev.Owner != ev.Client && victim == nil && w.lastMk[ev.Owner] == ev.Gen && !legit {
			w.pendingDestroyed[ev.Gen] = rem
		}
		w.curOwner = -1
	case ev.Path == w.hbFile && (ev.Op == "create" || ev.Op == "open" || ev.Op == "write" || ev.Op == "chtimes"):
		if ev.Mutating {
			w.beatLocked(ev.Client, now)
		}
	case ev.Path == w.hbFile && ev.Op == "remove" && ev.Err == nil:
		w.removes[ev.Client]++
	}
	if inLock && ev.Mutating && w.curOwner >= 0 {
		if t, ok := w.observableLocked(); ok {
			w.prevObs = t
		}
	}
	if ev.Op == "stat" && ev.Err == nil && inLock {
		w.pendingStat[ev.Client] = ev
	}
}

// onEffect runs in the operation's goroutine right after the effect: attach
// the stat result to the operation so that onDone can pair it with the instant
// at which the caller receives it.
func (w *lockWorld) onEffect(op *Op) {
	if op.Name != "stat" {
		return
	}
	w.mu.Lock()
	if ev := w.pendingStat[op.Client]; ev != nil && ev.Path == normPath(op.Path) {
		op.Aux = &statObs{path: ev.Path, mtime: ev.ModTime, isDir: ev.IsDir}
		op.AuxGen = w.curGen
		delete(w.pendingStat, op.Client)
	}
	w.mu.Unlock()
}

// onDone runs when the operation's result is handed to the library (the
// library computes the age with time.Since at this very simulated instant).
func (w *lockWorld) onDone(op *Op) {
	so, ok := op.Aux.(*statObs)
	if !ok || so == nil {
		return
	}
	now := time.Now()
	so.at = now
	w.mu.Lock()
	w.statSeen[op.Client] = append(w.statSeen[op.Client], *so)
	if StackHas("RemoteLockFile).IsStale") {
		age := now.Sub(so.mtime)
		w.judged[op.Client] = judgement{gen: op.AuxGen, stale: age > 2*w.period, age: age}
	}
	w.mu.Unlock()
}

func (w *lockWorld) beatLocked(c int, now time.Time) {
	w.lastBeat[c] = now
	if h := w.holders[c]; h != nil {
		if g := now.Sub(h.lastHB); g > h.maxGap {
			h.maxGap = g
		}
		h.lastHB = now
	}
}

// acquired is called by a client task right after an acquire call returned nil.
func (w *lockWorld) acquired(c int, how string, override bool) {
	now := time.Now()
	w.mu.Lock()
	defer w.mu.Unlock()
	w.seq++
	var others []int
	for oc, h := range w.holders {
		if oc != c && w.holdValidLocked(h, now) {
			others = append(others, oc)
		}
	}
	sort.Ints(others)
	myGen := w.lastMk[c]
	if rem, ok := w.pendingDestroyed[myGen]; ok && rem.by != c {
		w.violate("destructive-release",
			fmt.Sprintf("destructive-remove|by=%s|basis=%s|victim=acquirer-in-progress", rem.summary, rem.basis),
			fmt.Sprintf("t=%v client %d (in %s; %s) removed at t=%v the lock directory generation %d that client %d had just created and whose acquire (%s) then returned success", w.sim.Elapsed(), rem.by, rem.summary, rem.basis, rem.at.Sub(w.sim.Start), myGen, c, how))
	}
	for _, oc := range others {
		h := w.holders[oc]
		cause := "both-directories-intact"
		if r, ok := w.removed[h.gen]; ok {
			cause = "lock-directory-removed|by=" + r.summary + "|basis=" + r.basis
		} else if r, ok := w.removed[myGen]; ok && myGen != h.gen {
			cause = "lock-directory-removed|by=" + r.summary + "|basis=" + r.basis
		}
		if w.stalls && strings.HasSuffix(cause, "stale-observation-of-this-generation") {
			continue // legitimate takeover of a lock whose sign of life was seen older than two periods
		}
		w.violate("double-hold",
			fmt.Sprintf("double-hold|%s", cause),
			fmt.Sprintf("t=%v client %d acquired via %s (override=%v) while client %d still holds (acquired t=%v, heartbeat running, release not begun); %s", w.sim.Elapsed(), c, how, override, oc, h.since.Sub(w.sim.Start), cause))
	}
	hb := now
	if t, ok := w.lastBeat[c]; ok {
		hb = t
	}
	w.holders[c] = &hold{client: c, gen: myGen, since: now, lastHB: hb}
	w.history = append(w.history, lockEvent{seq: w.seq, client: c, what: "acquire"})
}

// releasing is called right before Unlock is invoked (the holder "has begun to release").
func (w *lockWorld) releasing(c int) {
	w.mu.Lock()
	defer w.mu.Unlock()
	w.seq++
	if h := w.holders[c]; h != nil {
		w.releasingGen[c] = h.gen
	}
	delete(w.holders, c)
	w.history = append(w.history, lockEvent{seq: w.seq, client: c, what: "release"})
}

// released is called after Unlock returned.
func (w *lockWorld) released(c int) {
	w.mu.Lock()
	defer w.mu.Unlock()
	delete(w.releasingGen, c)
}

func (w *lockWorld) kill(cl *lockClient) {
	w.mu.Lock()
	delete(w.holders, cl.id)
	w.seq++
	w.history = append(w.history, lockEvent{seq: w.seq, client: cl.id, what: "release"})
	cl.dead = true
	w.mu.Unlock()
	w.sim.Kill(cl.id)
	cl.cancel()
}

// overlapInHistory is the post-run interval check (second implementation of
// "at most one holder"); only meaningful when every hold is valid by construction.
func (w *lockWorld) overlapInHistory() (bool, string) {
	w.mu.Lock()
	defer w.mu.Unlock()
	cur := -1
	for _, e := range w.history {
		switch e.what {
		case "acquire":
			if cur >= 0 && cur != e.client {
				return true, fmt.Sprintf("event %d: client %d acquired while client %d holds", e.seq, e.client, cur)
			}
			cur = e.client
		case "release":
			if cur == e.client {
				cur = -1
			}
		}
	}
	return false, ""
}

func classifyLockErr(err error) string {
	switch {
	case err == nil:
		return "ok"
	case commonerrors.Any(err, commonerrors.ErrLocked):
		return "locked"
	case commonerrors.Any(err, commonerrors.ErrStaleLock):
		return "stale"
	case commonerrors.Any(err, commonerrors.ErrTimeout):
		return "timeout"
	case commonerrors.Any(err, commonerrors.ErrCancelled):
		return "cancelled"
	}
	return "other"
}

//go:build !race

package sim

const raceBuild = false

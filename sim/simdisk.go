package sim

import (
	"io"
	"os"
	"path/filepath"
	"sort"
	"strings"
	"sync"
	"syscall"
	"time"

	"github.com/spf13/afero"
)

// SimDisk is a small in-memory POSIX-like directory tree used as the shared
// store of the simulations. Differences from afero.MemMapFs that the checks
// rely on: strict ENOTEMPTY / EEXIST, creation-ordered directory listings,
// times stamped from time.Now() (the bubble clock inside synctest), ownership
// tags (creating client, generation) on every node, a handle table and an event
// hook. Its fidelity to afero.OsFs is checked by the conformance self-test.
type SimDisk struct {
	mu      sync.Mutex
	root    *node
	seq     int
	Opened  int
	Closed  int
	handles map[*simFile]struct{}
	// OnEvent, when set, receives every operation after it took effect.
	OnEvent func(ev *DiskEvent)
	// MaxBytes > 0 makes writes fail with ENOSPC beyond that many bytes in total.
	MaxBytes int64
	used     int64
}

type node struct {
	name   string
	parent *node
	dir    bool
	kids   map[string]*node
	order  []string
	data   []byte
	mode   os.FileMode
	mtime  time.Time
	atime  time.Time
	owner  int
	gen    int
	dead   bool
	sparse int64 // > 0: the file reads as that many zero bytes without being allocated (huge files)
}

// DiskEvent describes one operation on the disk after it was applied.
type DiskEvent struct {
	Client   int
	Op       string
	Path     string
	Path2    string
	Err      error
	Owner    int // owner tag of the node the op acted on (created / removed / stat'ed)
	Gen      int // generation tag of that node
	IsDir    bool
	ModTime  time.Time // for stat-like ops: the modification time handed out
	N        int       // bytes for read/write, names for readdir
	Mutating bool
}

func NewSimDisk() *SimDisk {
	d := &SimDisk{handles: map[*simFile]struct{}{}}
	d.root = &node{name: "/", dir: true, kids: map[string]*node{}, mode: os.ModeDir | 0o755, mtime: time.Now(), atime: time.Now()}
	return d
}

func perr(op, path string, e error) error { return &os.PathError{Op: op, Path: path, Err: e} }

func splitPath(p string) []string {
	p = filepath.ToSlash(filepath.Clean("/" + p))
	if p == "/" {
		return nil
	}
	return strings.Split(strings.TrimPrefix(p, "/"), "/")
}

func normPath(p string) string { return filepath.Clean("/" + p) }

// lookup returns the node, or an errno.
func (d *SimDisk) lookup(p string) (*node, error) {
	n := d.root
	for _, part := range splitPath(p) {
		if !n.dir {
			return nil, syscall.ENOTDIR
		}
		c, ok := n.kids[part]
		if !ok {
			return nil, syscall.ENOENT
		}
		n = c
	}
	return n, nil
}

func (d *SimDisk) lookupParent(p string) (*node, string, error) {
	parts := splitPath(p)
	if len(parts) == 0 {
		return nil, "", syscall.EEXIST // root itself
	}
	n := d.root
	for _, part := range parts[:len(parts)-1] {
		if !n.dir {
			return nil, "", syscall.ENOTDIR
		}
		c, ok := n.kids[part]
		if !ok {
			return nil, "", syscall.ENOENT
		}
		n = c
	}
	if !n.dir {
		return nil, "", syscall.ENOTDIR
	}
	return n, parts[len(parts)-1], nil
}

func (d *SimDisk) addChild(parent *node, name string, dir bool, perm os.FileMode, client int) *node {
	d.seq++
	now := time.Now()
	c := &node{name: name, parent: parent, dir: dir, mode: perm & os.ModePerm, mtime: now, atime: now, owner: client, gen: d.seq}
	if dir {
		c.kids = map[string]*node{}
		c.mode |= os.ModeDir
	}
	parent.kids[name] = c
	parent.order = append(parent.order, name)
	parent.mtime = now
	return c
}

func (d *SimDisk) dropChild(parent *node, name string) {
	c := parent.kids[name]
	delete(parent.kids, name)
	for i, s := range parent.order {
		if s == name {
			parent.order = append(parent.order[:i:i], parent.order[i+1:]...)
			break
		}
	}
	parent.mtime = time.Now()
	if c != nil {
		c.dead = true
		if !c.dir {
			// space is released when unlinked (handles keep data readable)
			d.used -= int64(len(c.data))
		}
	}
}

func (d *SimDisk) emit(ev *DiskEvent) {
	if d.OnEvent != nil {
		d.OnEvent(ev)
	}
}

// View returns the afero.Fs through which client c sees the disk.
func (d *SimDisk) View(client int) *DiskView { return &DiskView{d: d, c: client} }

// OpenHandles returns opened-closed.
func (d *SimDisk) OpenHandles() int {
	d.mu.Lock()
	defer d.mu.Unlock()
	return len(d.handles)
}

// DiskView is an afero.Fs (and afero.Lstater) bound to a client id.
type DiskView struct {
	d *SimDisk
	c int
}

var _ afero.Fs = (*DiskView)(nil)
var _ afero.Lstater = (*DiskView)(nil)

func (v *DiskView) Name() string { return "SimDisk" }

func (v *DiskView) Mkdir(name string, perm os.FileMode) error {
	d := v.d
	d.mu.Lock()
	defer d.mu.Unlock()
	ev := &DiskEvent{Client: v.c, Op: "mkdir", Path: normPath(name), Mutating: true, IsDir: true}
	parent, base, e := d.lookupParent(name)
	if e == nil {
		if ex, ok := parent.kids[base]; ok {
			e = syscall.EEXIST
			ev.Owner, ev.Gen = ex.owner, ex.gen
		}
	}
	if e != nil {
		ev.Err = perr("mkdir", name, e)
		d.emit(ev)
		return ev.Err
	}
	c := d.addChild(parent, base, true, perm, v.c)
	ev.Owner, ev.Gen = c.owner, c.gen
	d.emit(ev)
	return nil
}

func (v *DiskView) MkdirAll(path string, perm os.FileMode) error {
	d := v.d
	d.mu.Lock()
	defer d.mu.Unlock()
	ev := &DiskEvent{Client: v.c, Op: "mkdirall", Path: normPath(path), Mutating: true, IsDir: true}
	n := d.root
	for _, part := range splitPath(path) {
		if !n.dir {
			ev.Err = perr("mkdir", path, syscall.ENOTDIR)
			d.emit(ev)
			return ev.Err
		}
		c, ok := n.kids[part]
		if !ok {
			c = d.addChild(n, part, true, perm, v.c)
		}
		n = c
	}
	if !n.dir {
		ev.Err = perr("mkdir", path, syscall.ENOTDIR)
		d.emit(ev)
		return ev.Err
	}
	ev.Owner, ev.Gen = n.owner, n.gen
	d.emit(ev)
	return nil
}

func (v *DiskView) Create(name string) (afero.File, error) {
	return v.OpenFile(name, os.O_RDWR|os.O_CREATE|os.O_TRUNC, 0o666)
}

func (v *DiskView) Open(name string) (afero.File, error) {
	return v.OpenFile(name, os.O_RDONLY, 0)
}

func (v *DiskView) OpenFile(name string, flag int, perm os.FileMode) (afero.File, error) {
	d := v.d
	d.mu.Lock()
	defer d.mu.Unlock()
	acc := flag & (os.O_RDONLY | os.O_WRONLY | os.O_RDWR)
	writable := acc == os.O_WRONLY || acc == os.O_RDWR
	ev := &DiskEvent{Client: v.c, Op: "open", Path: normPath(name), Mutating: flag&(os.O_CREATE|os.O_TRUNC) != 0}
	fail := func(e error) (afero.File, error) {
		ev.Err = perr("open", name, e)
		d.emit(ev)
		return nil, ev.Err
	}
	n, e := d.lookup(name)
	switch {
	case e == syscall.ENOENT && flag&os.O_CREATE != 0:
		parent, base, pe := d.lookupParent(name)
		if pe != nil {
			return fail(pe)
		}
		n = d.addChild(parent, base, false, perm, v.c)
		ev.Op = "create"
	case e != nil:
		return fail(e)
	default:
		if flag&os.O_CREATE != 0 && flag&os.O_EXCL != 0 {
			return fail(syscall.EEXIST)
		}
		if n.dir && writable {
			return fail(syscall.EISDIR)
		}
		if flag&os.O_TRUNC != 0 && writable && !n.dir {
			d.used -= int64(len(n.data))
			n.data = nil
			n.mtime = time.Now()
		}
	}
	ev.Owner, ev.Gen, ev.IsDir = n.owner, n.gen, n.dir
	f := &simFile{v: v, n: n, name: name, readable: acc == os.O_RDONLY || acc == os.O_RDWR, writable: writable, append_: flag&os.O_APPEND != 0}
	d.handles[f] = struct{}{}
	d.Opened++
	d.emit(ev)
	return f, nil
}

func (v *DiskView) Remove(name string) error {
	d := v.d
	d.mu.Lock()
	defer d.mu.Unlock()
	ev := &DiskEvent{Client: v.c, Op: "remove", Path: normPath(name), Mutating: true}
	n, e := d.lookup(name)
	if e == nil {
		ev.Owner, ev.Gen, ev.IsDir = n.owner, n.gen, n.dir
		if n == d.root {
			e = syscall.EBUSY
		} else if n.dir && len(n.kids) > 0 {
			e = syscall.ENOTEMPTY
		}
	}
	if e != nil {
		ev.Err = perr("remove", name, e)
		d.emit(ev)
		return ev.Err
	}
	d.dropChild(n.parent, n.name)
	d.emit(ev)
	return nil
}

func (d *SimDisk) removeTree(n *node) {
	if n.dir {
		for _, k := range append([]string(nil), n.order...) {
			d.removeTree(n.kids[k])
		}
	}
	d.dropChild(n.parent, n.name)
}

func (v *DiskView) RemoveAll(path string) error {
	d := v.d
	d.mu.Lock()
	defer d.mu.Unlock()
	ev := &DiskEvent{Client: v.c, Op: "removeall", Path: normPath(path), Mutating: true}
	n, e := d.lookup(path)
	if e == syscall.ENOENT {
		d.emit(ev)
		return nil
	}
	if e != nil {
		ev.Err = perr("removeall", path, e)
		d.emit(ev)
		return ev.Err
	}
	ev.Owner, ev.Gen, ev.IsDir = n.owner, n.gen, n.dir
	if n == d.root {
		for _, k := range append([]string(nil), n.order...) {
			d.removeTree(n.kids[k])
		}
	} else {
		d.removeTree(n)
	}
	d.emit(ev)
	return nil
}

func isAncestor(a, b *node) bool {
	for x := b; x != nil; x = x.parent {
		if x == a {
			return true
		}
	}
	return false
}

func (v *DiskView) Rename(oldname, newname string) error {
	d := v.d
	d.mu.Lock()
	defer d.mu.Unlock()
	ev := &DiskEvent{Client: v.c, Op: "rename", Path: normPath(oldname), Path2: normPath(newname), Mutating: true}
	fail := func(e error) error {
		ev.Err = &os.LinkError{Op: "rename", Old: oldname, New: newname, Err: e}
		d.emit(ev)
		return ev.Err
	}
	src, e := d.lookup(oldname)
	if e != nil {
		return fail(e)
	}
	if src == d.root {
		return fail(syscall.EBUSY)
	}
	ev.Owner, ev.Gen, ev.IsDir = src.owner, src.gen, src.dir
	dparent, dbase, e := d.lookupParent(newname)
	if e != nil {
		return fail(e)
	}
	if src.dir && isAncestor(src, dparent) {
		return fail(syscall.EINVAL)
	}
	if ex, ok := dparent.kids[dbase]; ok {
		if ex == src {
			d.emit(ev)
			return nil
		}
		switch {
		case src.dir && !ex.dir:
			return fail(syscall.ENOTDIR)
		case !src.dir && ex.dir:
			return fail(syscall.EISDIR)
		case ex.dir && len(ex.kids) > 0:
			return fail(syscall.ENOTEMPTY)
		}
		d.dropChild(dparent, dbase)
	}
	// detach
	sp := src.parent
	delete(sp.kids, src.name)
	for i, s := range sp.order {
		if s == src.name {
			sp.order = append(sp.order[:i:i], sp.order[i+1:]...)
			break
		}
	}
	now := time.Now()
	sp.mtime = now
	src.name = dbase
	src.parent = dparent
	dparent.kids[dbase] = src
	dparent.order = append(dparent.order, dbase)
	dparent.mtime = now
	d.emit(ev)
	return nil
}

type simInfo struct {
	name  string
	size  int64
	mode  os.FileMode
	mtime time.Time
	dir   bool
}

func (i *simInfo) Name() string       { return i.name }
func (i *simInfo) Size() int64        { return i.size }
func (i *simInfo) Mode() os.FileMode  { return i.mode }
func (i *simInfo) ModTime() time.Time { return i.mtime }
func (i *simInfo) IsDir() bool        { return i.dir }
func (i *simInfo) Sys() interface{}   { return nil }

func infoOf(n *node) *simInfo {
	sz := int64(len(n.data))
	if n.sparse > 0 {
		sz = n.sparse
	}
	if n.dir {
		sz = 4096
	}
	return &simInfo{name: n.name, size: sz, mode: n.mode, mtime: n.mtime, dir: n.dir}
}

func (v *DiskView) Stat(name string) (os.FileInfo, error) {
	d := v.d
	d.mu.Lock()
	defer d.mu.Unlock()
	ev := &DiskEvent{Client: v.c, Op: "stat", Path: normPath(name)}
	n, e := d.lookup(name)
	if e != nil {
		ev.Err = perr("stat", name, e)
		d.emit(ev)
		return nil, ev.Err
	}
	ev.Owner, ev.Gen, ev.IsDir, ev.ModTime = n.owner, n.gen, n.dir, n.mtime
	d.emit(ev)
	return infoOf(n), nil
}

func (v *DiskView) LstatIfPossible(name string) (os.FileInfo, bool, error) {
	fi, err := v.Stat(name)
	return fi, true, err
}

func (v *DiskView) Chmod(name string, mode os.FileMode) error {
	d := v.d
	d.mu.Lock()
	defer d.mu.Unlock()
	ev := &DiskEvent{Client: v.c, Op: "chmod", Path: normPath(name), Mutating: true}
	n, e := d.lookup(name)
	if e != nil {
		ev.Err = perr("chmod", name, e)
		d.emit(ev)
		return ev.Err
	}
	n.mode = (n.mode &^ os.ModePerm) | (mode & os.ModePerm)
	d.emit(ev)
	return nil
}

func (v *DiskView) Chown(name string, uid, gid int) error {
	d := v.d
	d.mu.Lock()
	defer d.mu.Unlock()
	ev := &DiskEvent{Client: v.c, Op: "chown", Path: normPath(name), Mutating: true}
	_, e := d.lookup(name)
	if e != nil {
		ev.Err = perr("chown", name, e)
		d.emit(ev)
		return ev.Err
	}
	d.emit(ev)
	return nil
}

func (v *DiskView) Chtimes(name string, atime time.Time, mtime time.Time) error {
	d := v.d
	d.mu.Lock()
	defer d.mu.Unlock()
	ev := &DiskEvent{Client: v.c, Op: "chtimes", Path: normPath(name), Mutating: true}
	n, e := d.lookup(name)
	if e != nil {
		ev.Err = perr("chtimes", name, e)
		d.emit(ev)
		return ev.Err
	}
	n.atime, n.mtime = atime, mtime
	ev.Owner, ev.Gen, ev.IsDir, ev.ModTime = n.owner, n.gen, n.dir, mtime
	d.emit(ev)
	return nil
}

// ---- file handles

type simFile struct {
	v        *DiskView
	n        *node
	name     string
	pos      int64
	dirPos   int
	closed   bool
	readable bool
	writable bool
	append_  bool
}

func (f *simFile) Name() string { return f.name }

func (f *simFile) ev(op string) *DiskEvent {
	return &DiskEvent{Client: f.v.c, Op: op, Path: normPath(f.name), Owner: f.n.owner, Gen: f.n.gen, IsDir: f.n.dir}
}

func (f *simFile) Close() error {
	d := f.v.d
	d.mu.Lock()
	defer d.mu.Unlock()
	ev := f.ev("close")
	if f.closed {
		ev.Err = afero.ErrFileClosed
		d.emit(ev)
		return ev.Err
	}
	f.closed = true
	delete(d.handles, f)
	d.Closed++
	d.emit(ev)
	return nil
}

func (f *simFile) Read(p []byte) (int, error) {
	d := f.v.d
	d.mu.Lock()
	defer d.mu.Unlock()
	ev := f.ev("read")
	n, err := f.readAt(p, f.pos)
	f.pos += int64(n)
	ev.N, ev.Err = n, err
	if err == io.EOF {
		ev.Err = nil
	}
	d.emit(ev)
	return n, err
}

func (f *simFile) readAt(p []byte, off int64) (int, error) {
	if f.closed {
		return 0, afero.ErrFileClosed
	}
	if f.n.dir {
		return 0, perr("read", f.name, syscall.EISDIR)
	}
	if !f.readable {
		return 0, perr("read", f.name, syscall.EBADF)
	}
	if len(p) == 0 {
		return 0, nil
	}
	if f.n.sparse > 0 {
		if off >= f.n.sparse {
			return 0, io.EOF
		}
		n := len(p)
		if int64(n) > f.n.sparse-off {
			n = int(f.n.sparse - off)
		}
		for i := 0; i < n; i++ {
			p[i] = 0
		}
		return n, nil
	}
	if off >= int64(len(f.n.data)) {
		return 0, io.EOF
	}
	n := copy(p, f.n.data[off:])
	return n, nil
}

func (f *simFile) ReadAt(p []byte, off int64) (int, error) {
	d := f.v.d
	d.mu.Lock()
	defer d.mu.Unlock()
	ev := f.ev("readat")
	if off < 0 {
		return 0, perr("readat", f.name, syscall.EINVAL)
	}
	n, err := f.readAt(p, off)
	if err == nil && n < len(p) {
		err = io.EOF
	}
	ev.N = n
	d.emit(ev)
	return n, err
}

func (f *simFile) Seek(offset int64, whence int) (int64, error) {
	d := f.v.d
	d.mu.Lock()
	defer d.mu.Unlock()
	if f.closed {
		return 0, afero.ErrFileClosed
	}
	var np int64
	switch whence {
	case io.SeekStart:
		np = offset
	case io.SeekCurrent:
		np = f.pos + offset
	case io.SeekEnd:
		np = int64(len(f.n.data)) + offset
	default:
		return 0, perr("seek", f.name, syscall.EINVAL)
	}
	if np < 0 {
		return 0, perr("seek", f.name, syscall.EINVAL)
	}
	f.pos = np
	if f.n.dir && np == 0 {
		f.dirPos = 0
	}
	return np, nil
}

func (f *simFile) writeAt(p []byte, off int64) (int, error) {
	d := f.v.d
	if f.closed {
		return 0, afero.ErrFileClosed
	}
	if f.n.dir || !f.writable {
		return 0, perr("write", f.name, syscall.EBADF)
	}
	end := off + int64(len(p))
	grow := end - int64(len(f.n.data))
	if grow > 0 {
		if d.MaxBytes > 0 && !f.n.dead && d.used+grow > d.MaxBytes {
			// write what fits
			room := d.MaxBytes - d.used
			if room <= 0 || int64(len(p)) <= grow-room {
				return 0, perr("write", f.name, syscall.ENOSPC)
			}
			keep := int64(len(p)) - (grow - room)
			n, _ := f.writeAtNoLimit(p[:keep], off)
			return n, perr("write", f.name, syscall.ENOSPC)
		}
	}
	return f.writeAtNoLimit(p, off)
}

func (f *simFile) writeAtNoLimit(p []byte, off int64) (int, error) {
	d := f.v.d
	end := off + int64(len(p))
	if end > int64(len(f.n.data)) {
		grow := end - int64(len(f.n.data))
		if !f.n.dead {
			d.used += grow
		}
		if int64(cap(f.n.data)) >= end {
			old := len(f.n.data)
			f.n.data = f.n.data[:end]
			for i := int64(old); i < off; i++ {
				f.n.data[i] = 0
			}
		} else {
			nd := make([]byte, end, end+end/2+64)
			copy(nd, f.n.data)
			f.n.data = nd
		}
	}
	copy(f.n.data[off:], p)
	f.n.mtime = time.Now()
	return len(p), nil
}

func (f *simFile) Write(p []byte) (int, error) {
	d := f.v.d
	d.mu.Lock()
	defer d.mu.Unlock()
	ev := f.ev("write")
	ev.Mutating = true
	if f.append_ {
		f.pos = int64(len(f.n.data))
	}
	n, err := f.writeAt(p, f.pos)
	f.pos += int64(n)
	ev.N, ev.Err = n, err
	d.emit(ev)
	return n, err
}

func (f *simFile) WriteAt(p []byte, off int64) (int, error) {
	d := f.v.d
	d.mu.Lock()
	defer d.mu.Unlock()
	ev := f.ev("writeat")
	ev.Mutating = true
	if off < 0 {
		return 0, perr("writeat", f.name, syscall.EINVAL)
	}
	n, err := f.writeAt(p, off)
	ev.N, ev.Err = n, err
	d.emit(ev)
	return n, err
}

func (f *simFile) WriteString(s string) (int, error) { return f.Write([]byte(s)) }

func (f *simFile) Truncate(size int64) error {
	d := f.v.d
	d.mu.Lock()
	defer d.mu.Unlock()
	ev := f.ev("truncate")
	ev.Mutating = true
	if f.closed {
		return afero.ErrFileClosed
	}
	if f.n.dir || !f.writable || size < 0 {
		return perr("truncate", f.name, syscall.EINVAL)
	}
	cur := int64(len(f.n.data))
	if size < cur {
		f.n.data = f.n.data[:size:size]
	} else if size > cur {
		nd := make([]byte, size)
		copy(nd, f.n.data)
		f.n.data = nd
	}
	if !f.n.dead {
		d.used += size - cur
	}
	f.n.mtime = time.Now()
	d.emit(ev)
	return nil
}

func (f *simFile) Sync() error {
	if f.closed {
		return afero.ErrFileClosed
	}
	return nil
}

func (f *simFile) Stat() (os.FileInfo, error) {
	d := f.v.d
	d.mu.Lock()
	defer d.mu.Unlock()
	ev := f.ev("fstat")
	if f.closed {
		return nil, afero.ErrFileClosed
	}
	ev.ModTime = f.n.mtime
	d.emit(ev)
	return infoOf(f.n), nil
}

func (f *simFile) Readdirnames(n int) ([]string, error) {
	d := f.v.d
	d.mu.Lock()
	defer d.mu.Unlock()
	ev := f.ev("readdir")
	names, err := f.readdirnames(n)
	ev.N = len(names)
	if err != io.EOF {
		ev.Err = err
	}
	d.emit(ev)
	return names, err
}

func (f *simFile) readdirnames(n int) ([]string, error) {
	if f.closed {
		return nil, afero.ErrFileClosed
	}
	if !f.n.dir {
		return nil, perr("readdirent", f.name, syscall.ENOTDIR)
	}
	var rest []string
	if f.dirPos < len(f.n.order) {
		rest = f.n.order[f.dirPos:]
	}
	if n <= 0 {
		out := append([]string{}, rest...)
		f.dirPos = len(f.n.order)
		return out, nil
	}
	if len(rest) == 0 {
		return []string{}, io.EOF
	}
	if n > len(rest) {
		n = len(rest)
	}
	out := append([]string{}, rest[:n]...)
	f.dirPos += n
	return out, nil
}

func (f *simFile) Readdir(count int) ([]os.FileInfo, error) {
	d := f.v.d
	d.mu.Lock()
	defer d.mu.Unlock()
	ev := f.ev("readdir")
	names, err := f.readdirnames(count)
	infos := make([]os.FileInfo, 0, len(names))
	for _, nm := range names {
		if c, ok := f.n.kids[nm]; ok {
			infos = append(infos, infoOf(c))
		}
	}
	ev.N = len(infos)
	d.emit(ev)
	return infos, err
}

// ---- inspection helpers for oracles (not part of afero.Fs)

// Entry is one line of a tree dump.
type Entry struct {
	Path  string
	Dir   bool
	Data  string
	Owner int
	Gen   int
	MTime time.Time
}

// Dump lists the subtree under root (excluding root itself) sorted by path.
func (d *SimDisk) Dump(root string) []Entry {
	d.mu.Lock()
	defer d.mu.Unlock()
	n, e := d.lookup(root)
	if e != nil {
		return nil
	}
	var out []Entry
	var walk func(prefix string, n *node)
	walk = func(prefix string, n *node) {
		for _, k := range n.order {
			c := n.kids[k]
			p := prefix + "/" + k
			out = append(out, Entry{Path: p, Dir: c.dir, Data: string(c.data), Owner: c.owner, Gen: c.gen, MTime: c.mtime})
			if c.dir {
				walk(p, c)
			}
		}
	}
	walk("", n)
	sort.Slice(out, func(i, j int) bool { return out[i].Path < out[j].Path })
	return out
}

// MakeSparse creates (or turns) a file into one that reads as size zero bytes without allocating them.
func (d *SimDisk) MakeSparse(p string, size int64) error {
	d.mu.Lock()
	defer d.mu.Unlock()
	n, e := d.lookup(p)
	if e == syscall.ENOENT {
		parent, base, pe := d.lookupParent(p)
		if pe != nil {
			return perr("open", p, pe)
		}
		n = d.addChild(parent, base, false, 0o644, 0)
	} else if e != nil {
		return perr("open", p, e)
	}
	n.data, n.sparse = nil, size
	return nil
}

// Peek returns the node tags of a path without emitting an event.
func (d *SimDisk) Peek(p string) (exists bool, dir bool, owner int, gen int, mtime time.Time, kids int) {
	d.mu.Lock()
	defer d.mu.Unlock()
	n, e := d.lookup(p)
	if e != nil {
		return
	}
	return true, n.dir, n.owner, n.gen, n.mtime, len(n.kids)
}

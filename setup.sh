#!/bin/sh
# Builds the simulation worker binaries from /repo's working tree (offline) and
# runs the SimDisk-vs-OsFs conformance self-test. Nothing is kept under /tmp.
set -e
cd "$(dirname "$0")"
python3 ./verifctl.py setup

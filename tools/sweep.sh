#!/bin/bash
# usage: sweep.sh <seed> [props...]   runs the quick tier of every check with the given VERIF_SEED and prints one line per check
seed=$1; shift
props=${@:-C01 C05 C06 C09 C12 C13 C14 C16 C17 C18 C19 C20}
for p in $props; do
  out=$(VERIF_SEED=$seed ./verifctl.py check $p --tier quick 2>&1); rc=$?
  echo "seed=$seed $p exit=$rc $(echo "$out" | grep -c KNOWN-FINDING) known; $(echo "$out" | grep 'VIOLATION\|INFRASTRUCTURE' | head -3 | tr '\n' ' ')"
  [ $rc -ne 0 ] && echo "$out" | tail -8
done

#!/bin/bash
# usage: devmut.sh <PROP:RUNS> <patch.diff | -R:commit>   -- development aid: apply a change to /repo, run the in-process dev loop, undo.
export GOFLAGS=-mod=mod GOPROXY=off GOSUMDB=off GOTOOLCHAIN=local
spec="$1"; patch="$2"
cd /repo || exit 2
if [ -n "$(git status --porcelain --untracked-files=no)" ]; then echo "/repo not clean"; exit 2; fi
case "$patch" in
  -R:*) git show "${patch#-R:}" | git apply -R || exit 2;;
  *) git apply "$patch" || exit 2;;
esac
git diff --stat | tail -1
cd /verif/sim && VERIF_SCRATCH=/verif/.build VERIF_DEV=$spec VERIF_DEV_TIER=$VERIF_DEV_TIER GOMAXPROCS=1 timeout 900 go1.26.8 test -count=1 -v -run TestDev . 2>&1 | grep "^VIOL\|^infra\|^runs\|rror\|panic\|undefined\|FAIL" | cut -c1-260
cd /repo && git checkout -- . 

#!/bin/bash
# usage: [ENGINE=race] devmut.sh <PROP:RUNS> <patch.diff | -R:commit | none>   -- development aid: apply a change to /repo, run the in-process dev loop, undo.
export GOFLAGS=-mod=mod GOPROXY=off GOSUMDB=off GOTOOLCHAIN=local
spec="$1"; patch="$2"
cd /repo || exit 2
if [ -n "$(git status --porcelain --untracked-files=no)" ]; then echo "/repo not clean"; exit 2; fi
case "$patch" in
  none) ;;
  -R:*) git show "${patch#-R:}" | git apply -R || exit 2;;
  *) git apply "$patch" || exit 2;;
esac
git diff --stat | tail -1
cd /verif/sim
D=$(mktemp -d /verif/.build/devmut.XXXXXX)
if [ "$ENGINE" = race ]; then
  go1.26.8 test -c -tags verif -race -o $D/t.test . 2>&1 | tail -5
  GORACE="log_path=$D/race halt_on_error=0" VERIF_SCRATCH=$D VERIF_DEV=$spec VERIF_DEV_TIER=$VERIF_DEV_TIER GOMAXPROCS=4 timeout 900 $D/t.test -test.run TestDev -test.v -test.timeout 0 2>&1 | grep "^VIOL\|^infra\|^runs\|rror\|panic\|undefined\|FAIL" | cut -c1-260
else
  VERIF_SCRATCH=$D VERIF_DEV=$spec VERIF_DEV_TIER=$VERIF_DEV_TIER GOMAXPROCS=1 VERIF_HELPER=/verif/.build/bin/vhelper timeout 1500 go1.26.8 test -tags verif -count=1 -v -timeout 0 -run TestDev . 2>&1 | grep "^VIOL\|^infra\|^runs\|rror\|panic\|undefined\|FAIL" | cut -c1-260
fi
/bin/rm -rf "$D"
cd /repo && git checkout -- .

#!/bin/bash
# usage: mutwt.sh <patch.diff|none> <SPEC>...      SPEC = [race:]PROP:RUNS
# development aid: applies a candidate change to a private scratch worktree of /repo's HEAD (never to /repo itself), runs the
# in-process dev loops of the given properties against it and removes the worktree. Several instances can run side by side.
export GOFLAGS=-mod=mod GOPROXY=off GOSUMDB=off GOTOOLCHAIN=local
patch="$1"; shift
W=$(mktemp -d /var/tmp/mutwt.XXXXXX)
trap 'git -C /repo worktree remove --force "$W/wt" >/dev/null 2>&1; /bin/rm -rf "$W"' EXIT
git -C /repo worktree add --detach "$W/wt" HEAD >/dev/null 2>&1 || { echo "cannot create worktree"; exit 2; }
if [ "$patch" != none ]; then git -C "$W/wt" apply "$patch" || { echo "patch does not apply"; exit 2; }; fi
sed "s#=> /repo/utils#=> $W/wt/utils#" /verif/sim/go.mod > "$W/go.mod"; cp /repo/utils/go.sum "$W/go.sum"
mkdir -p /verif/.build; grep -o 'sig="[^"]*"' /verif/known_findings.txt | sed 's/sig="//; s/"$//' > "$W/known.sigs"
cd /verif/sim
for sp in "$@"; do
  if [[ $sp == race:* ]]; then sp=${sp#race:}; race=-race; else race=; fi
  echo "=== $(basename $(dirname "$patch"))/$(basename "$patch") $sp ${race:+(race)}"
  go1.26.8 test -c -modfile "$W/go.mod" -tags verif $race -o "$W/t.test" . 2>&1 | grep -v "^#" | head -5
  [ -x "$W/t.test" ] || { echo "BUILD FAILED"; continue; }
  mkdir -p "$W/scratch"
  GORACE="log_path=$W/scratch/race halt_on_error=0" VERIF_SCRATCH="$W/scratch" VERIF_DEV=$sp VERIF_DEV_TIER=$TIER GOMAXPROCS=${PROCS:-4} VERIF_HELPER=/verif/.build/bin/vhelper \
    timeout ${LIMIT:-1500} "$W/t.test" -test.run TestDev -test.v -test.timeout 0 2>&1 | grep "^VIOL\|^infra=\[.\+\]\|^runs\|panic:\|^--- FAIL" | grep -v -F -f "$W/known.sigs" | cut -c1-230 | head -${LINES_MAX:-8}
  /bin/rm -rf "$W/t.test" "$W/scratch"
done

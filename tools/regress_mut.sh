#!/bin/bash
# usage: regress_mut.sh [wave1|wave2 ...]   - re-run every kept candidate change against the current checks (scratch worktrees, 3 at a time)
# logs: /verif/.build/regress/<wave>-<ID>-<mN>.log
base=/verif/.build/mutout; out=/verif/.build/regress; mkdir -p $out
declare -A SPEC=( [C01]="C01:2500 C17:2500" [C17]="C17:2500 C01:1500" [C12]="C12:60000 race:C12S:1500" [C13]="race:C13:2500" [C14]="C14:60000" [C16]="C16:3000 C01:2500" [C09]="C09:500" [C06]="C06:12000 C09:450" [C19]="C19:30000" [C20]="C20:14000" [C18]="C18:3000 C18P:200" [C05]="C05:1200" )
waves=${@:-wave1 wave2 wave3 wave4}
for w in $waves; do for d in $base/$w/C*/m[12]; do
  id=$(basename $(dirname $d)); m=$(basename $d)
  p=$d/patch.diff; [ -f $d/patch.ported.diff ] && p=$d/patch.ported.diff
  echo "$w-$id-$m $p ${SPEC[$id]}"
done; done | xargs -P 3 -L 1 bash -c 'PROCS=4 /verif/tools/mutwt.sh $1 ${@:2} > /verif/.build/regress/$0.log 2>&1'

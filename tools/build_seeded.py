#!/usr/bin/env python3
"""Assemble /verif/seeded/<ID>-w<wave>-mN/ from the kept candidate changes (/verif/.build/mutout/wave*/<ID>/mN: patch, demonstration,
NOTES.md, confirm.json written by tools/confirm_mut.py) and the regression logs of tools/regress_mut.sh
(/verif/.build/regress/<wave>-<ID>-<mN>.log). Nothing here is used by a registered check."""
import json, os, re, shutil, sys, glob

BASE = "/verif/.build/mutout"
REG = "/verif/.build/regress"
OUT = "/verif/seeded"
props = {json.loads(l)["id"]: json.loads(l) for l in open("/verif/properties.jsonl")}
index = []
NOTES = json.load(open("/verif/tools/seeded_notes.json")) if os.path.exists("/verif/tools/seeded_notes.json") else {}
for wave in sorted(os.listdir(BASE)):
    wn = wave.replace("wave", "")
    for d in sorted(glob.glob(os.path.join(BASE, wave, "C*", "m[12]"))):
        ID, mn = d.split("/")[-2], d.split("/")[-1]
        name = "%s-w%s-%s" % (ID, wn, mn)
        dst = os.path.join(OUT, name)
        shutil.rmtree(dst, ignore_errors=True)
        os.makedirs(dst)
        ported = os.path.exists(os.path.join(d, "patch.ported.diff"))
        if ported:
            shutil.copy(os.path.join(d, "patch.ported.diff"), os.path.join(dst, "patch.diff"))
            shutil.copy(os.path.join(d, "patch.diff"), os.path.join(dst, "patch.orig.diff"))
        else:
            shutil.copy(os.path.join(d, "patch.diff"), os.path.join(dst, "patch.diff"))
        demos = []
        for f in sorted(os.listdir(d)):
            if f.endswith("_test.go") or f == "NOTES.md" or f == "confirm.json":
                shutil.copy(os.path.join(d, f), os.path.join(dst, f))
                if f.endswith("_test.go"):
                    demos.append(f)
        if os.path.isdir(os.path.join(d, "orig")):
            shutil.copytree(os.path.join(d, "orig"), os.path.join(dst, "orig"))
        notes = open(os.path.join(d, "NOTES.md")).read() if os.path.exists(os.path.join(d, "NOTES.md")) else ""
        title = notes.strip().split("\n")[0].lstrip("# ").strip() if notes else ""
        m = re.search(r"(?is)#+\s*what (?:is|it) need[^\n]*\n(.*?)(?:\n#+ |\Z)", notes)
        needs = re.sub(r"\s+", " ", m.group(1)).strip()[:900] if m else "see NOTES.md"
        confirm = {}
        if os.path.exists(os.path.join(d, "confirm.json")):
            c = json.load(open(os.path.join(d, "confirm.json")))
            confirm = {k: c.get(k) for k in ("demo_passes_unchanged", "patch_applies", "builds", "demo_fails_with_change", "existing_tests_pass", "confirmed")}
            cmds = []
            for x in c.get("demos", []):
                src = open(os.path.join(d, x["file"])).read()
                names = re.findall(r"^func (Test\w+)\(", src, re.M)
                race = "-race " if re.search(r"go test[^\n]*-race", src) else ""
                cmds.append("in a scratch worktree $W of /repo with patch.diff applied: cp %s $W/%s/ && cd $W/utils && GOFLAGS=-mod=mod GOPROXY=off go test -vet=off -count=1 %s-run '^(%s)$' ./%s/" % (x["file"], x["dir"], race, "|".join(names), x["dir"][len("utils/"):]))
            confirm["demo_commands"] = cmds
        detected = []
        log = os.path.join(REG, "%s-%s-%s.log" % (wave, ID, mn))
        ran = []
        if os.path.exists(log):
            cur = None
            for line in open(log):
                mm = re.match(r"=== \S+ (\S+)\s*(\(race\))?", line)
                if mm:
                    cur = dict(dev_loop=mm.group(1) + (" (race build)" if mm.group(2) else ""), signatures=[])
                    ran.append(cur)
                    continue
                mm = re.match(r"VIOL x(\d+) idx=(\d+) (.*)", line)
                if mm and cur is not None:
                    cur["signatures"].append(dict(signature=mm.group(3).strip(), runs=int(mm.group(1)), first_index=int(mm.group(2))))
            detected = [r for r in ran if r["signatures"]]
        meta = dict(
            id=name, property=ID, property_title=props[ID]["title"], round=int(wn), summary=title,
            touches=sorted(set(re.findall(r"^\+\+\+ b/(\S+)", open(os.path.join(dst, "patch.diff")).read(), re.M))),
            ported_after_repairs=ported, needs=needs, demonstration=demos, confirmation=confirm,
            checked_with=[r["dev_loop"] for r in ran],
            detected=bool(detected), detected_by=detected,
            note=NOTES.get(name, ""),
            how_to_run="git -C /repo apply /verif/seeded/%s/patch.diff; (cd /verif && ./verifctl.py check %s --tier quick); git -C /repo checkout -- ." % (name, ID),
        )
        json.dump(meta, open(os.path.join(dst, "meta.json"), "w"), indent=1)
        index.append((name, title, detected, [s["signature"] for r in detected for s in r["signatures"]][:3], confirm.get("confirmed"), NOTES.get(name, "")))
with open(os.path.join(OUT, "INDEX.md"), "w") as f:
    f.write("# Deliberately broken variants kept for regression\n\nEach directory: `patch.diff` (applies to /repo HEAD; `patch.orig.diff` when it had to be ported after the repairs), the demonstration test(s), `NOTES.md` of its author, `confirm.json` (tools/confirm_mut.py) and `meta.json`.\n\n| id | change | confirmed | caught | first signatures |\n|---|---|---|---|---|\n")
    for name, title, det, sigs, conf, note in index:
        f.write("| %s | %s | %s | %s | %s |\n" % (name, title.replace("|", "/")[:110], conf, "yes" if det else ("no: " + note[:160] if note else "NO"), "; ".join("`%s`" % s for s in sigs)))
print("%d variants, %d detected" % (len(index), sum(1 for i in index if i[2])))

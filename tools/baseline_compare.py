#!/usr/bin/env python3
"""Runs the repository's pinned test command (guard off) and compares with /root/.vp/BASELINE.json:
every test in stable_pass must pass. usage: baseline_compare.py [runs]"""
import json, subprocess, sys, os
b = json.load(open('/root/.vp/BASELINE.json'))
stable = set(b['stable_pass'])
runs = int(sys.argv[1]) if len(sys.argv) > 1 else 1
env = dict(os.environ, GOFLAGS='-mod=mod', GOPROXY='off')
env.pop('GOSUMDB', None); env.pop('GOTOOLCHAIN', None)
failed_any = set()
for r in range(runs):
    p = subprocess.run('go test -mod=mod -json -vet=off -count=1 -timeout 25m ./...', shell=True, cwd='/repo/utils', env=env, stdout=subprocess.PIPE, stderr=subprocess.STDOUT, text=True)
    res = {}
    for line in p.stdout.splitlines():
        try:
            e = json.loads(line)
        except Exception:
            continue
        if e.get('Action') in ('pass', 'fail', 'skip') and e.get('Test'):
            res[e['Package'] + '::' + e['Test']] = e['Action']
    missing = [t for t in stable if t not in res]
    failed = [t for t in stable if res.get(t) == 'fail']
    print('run %d: %d results, stable tests failed: %d, missing: %d' % (r, len(res), len(failed), len(missing)))
    for t in sorted(failed)[:20]:
        print('  FAIL', t)
    for t in sorted(missing)[:10]:
        print('  MISSING', t)
    failed_any |= set(failed) | set(missing)
sys.exit(1 if failed_any else 0)

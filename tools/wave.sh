#!/bin/bash
# usage: wave.sh <dir with <ID>/mN/patch.diff> <ID> [mN...]  - run the relevant dev loops against candidate changes
base=$1; id=$2; shift 2
ms=${@:-m1 m2}
declare -A SPEC=( [C01]="C01:2500" [C17]="C17:2500 C01:1500" [C12]="C12:60000 race:C12S:1500" [C13]="race:C13:2500" [C14]="C14:60000" [C16]="C16:900" [C09]="C09:500" [C06]="C06:4000" [C19]="C19:30000" [C20]="C20:14000" [C18]="C18:3000 C18P:200" [C05]="C05:400" )
cd /verif
grep -o 'sig="[^"]*"' known_findings.txt | sed 's/sig="//; s/"$//' > /verif/.build/known.sigs
for m in $ms; do
  p=$base/$id/$m/patch.diff; [ -f $base/$id/$m/patch.ported.diff ] && p=$base/$id/$m/patch.ported.diff
  for sp in ${SPEC[$id]}; do
    if [[ $sp == race:* ]]; then sp=${sp#race:}; eng=race; else eng=sim; fi
    echo "=== $id $m $sp ($eng)"
    VERIF_DEV_TIER=$TIER ENGINE=$eng tools/devmut.sh $sp $p 2>&1 | grep "^VIOL\|FAIL\|undefined\|error:\|^infra=\[.\+\]" | grep -v -F -f /verif/.build/known.sigs | cut -c1-230 | head -6
  done
done

#!/usr/bin/env python3
"""Confirm a candidate breaking change in a scratch worktree of /repo (outside /repo and /verif):
  1. the demonstration passes on the unchanged tree,
  2. the patch applies, the module builds, the demonstration fails with it,
  3. the existing tests of the touched packages fail no more than on the unchanged tree.
usage: confirm_mut.py <ID> <mN> <dir with patch.diff + demo files> [patchfile]
Writes <dir>/confirm.json. The worktree is removed afterwards.
"""
import json, os, re, subprocess, sys, shutil, time

ID, MN, D = sys.argv[1], sys.argv[2], sys.argv[3]
patch = sys.argv[4] if len(sys.argv) > 4 else os.path.join(D, "patch.diff")
WT = "/tmp/confirm/%s-%s" % (ID, MN)
ENV = dict(os.environ, GOFLAGS="-mod=mod", GOPROXY="off")
ENV.pop("GOSUMDB", None); ENV.pop("GOTOOLCHAIN", None)
CACHE = "/tmp/confirm/baseline"

def sh(cmd, cwd=None, timeout=3000):
    r = subprocess.run(cmd, shell=True, cwd=cwd, env=ENV, stdout=subprocess.PIPE, stderr=subprocess.STDOUT, text=True, timeout=timeout)
    return r.returncode, r.stdout

def failing(out):
    return sorted(set(re.findall(r"^--- FAIL: (\S+)", out, re.M)) | set(re.findall(r"^\s+--- FAIL: (\S+)", out, re.M)))

# tests the pinned baseline (/root/.vp/BASELINE.json) lists as always failing or flaky on the unchanged tree
_b = json.load(open("/root/.vp/BASELINE.json"))
def _names(v):
    if isinstance(v, str):
        import ast
        v = ast.literal_eval(v)
    return {x.split("::")[1].split("/")[0] for x in v}
UNSTABLE = _names(_b.get("always_fail", [])) | _names(_b.get("flaky", []))
res = dict(id=ID, m=MN, patch=os.path.basename(patch), steps=[])
os.makedirs("/tmp/confirm", exist_ok=True); os.makedirs(CACHE, exist_ok=True)
sh("git -C /repo worktree remove --force %s" % WT)
rc, out = sh("git -C /repo worktree add -q --detach %s HEAD" % WT)
if rc: print(out); sys.exit(2)
try:
    touched = sorted(set(re.findall(r"^\+\+\+ b/(utils/\S+)", open(patch).read(), re.M)))
    pkgs = sorted(set(os.path.dirname(p) for p in touched))
    res["touched"] = touched
    demos = [f for f in os.listdir(D) if f.endswith("_test.go")]
    placed = []
    for f in demos:
        src = open(os.path.join(D, f)).read()
        head = "\n".join(src.split("\n")[:40])
        m = re.search(r"(utils/[\w/\-]+?)/[\w\-.]+_test\.go", head) or re.search(r"`?(utils/[\w/\-]+?)/?`", head)
        pkgline = re.search(r"^package (\w+)", src, re.M).group(1)
        ddir = m.group(1) if m else pkgs[0]
        if not os.path.isdir(os.path.join(WT, ddir)):
            ddir = pkgs[0]
        placed.append((f, ddir, pkgline))
    res["demos"] = [dict(file=f, dir=d, package=p) for f, d, p in placed]
    def place():
        for f, d, _ in placed:
            shutil.copy(os.path.join(D, f), os.path.join(WT, d, f))
    def unplace():
        for f, d, _ in placed:
            try: os.remove(os.path.join(WT, d, f))
            except FileNotFoundError: pass
    def run_demos():
        outs = {}
        ok = True
        for f, d, _ in placed:
            names = re.findall(r"^func (Test\w+)\(", open(os.path.join(D, f)).read(), re.M)
            race = "-race " if re.search(r"go test[^\n]*-race", open(os.path.join(D, f)).read()) else ""  # the demo's own header asks for the race detector
            rc, out = sh("go test -vet=off -count=1 %s-run '^(%s)$' ./%s/" % (race, "|".join(names), d[len("utils/"):]), cwd=os.path.join(WT, "utils"), timeout=1500)
            outs[f] = dict(rc=rc, tail=out[-1500:])
            ok = ok and rc == 0
        return ok, outs
    # 1. demo on unchanged tree
    place()
    ok, outs = run_demos()
    res["steps"].append(dict(step="demo on unchanged tree", passed=ok, out=outs))
    res["demo_passes_unchanged"] = ok
    # 2. apply patch
    rc, out = sh("git apply %s" % patch, cwd=WT)
    res["patch_applies"] = rc == 0
    if rc:
        res["steps"].append(dict(step="apply", out=out))
        raise SystemExit
    rc, out = sh("go build ./... && go vet ./%s/ >/dev/null 2>&1; true" % pkgs[0][len("utils/"):], cwd=os.path.join(WT, "utils"))
    res["builds"] = rc == 0
    ok, outs = run_demos()
    res["steps"].append(dict(step="demo with change", passed=ok, out=outs))
    res["demo_fails_with_change"] = not ok
    # 3. existing tests of touched packages with the change
    unplace()
    newfails = {}
    for p in pkgs:
        rel = p[len("utils/"):]
        cache = os.path.join(CACHE, rel.replace("/", "_") + ".json")
        if not os.path.exists(cache):
            sh("git -C /repo worktree remove --force /tmp/confirm/base-%s" % rel.replace("/", "_"))
            bw = "/tmp/confirm/base-%s" % rel.replace("/", "_")
            sh("git -C /repo worktree add -q --detach %s HEAD" % bw)
            fails = set()
            for _ in range(2):
                rc0, out0 = sh("go test -vet=off -count=1 -timeout 20m ./%s/" % rel, cwd=os.path.join(bw, "utils"))
                fails |= set(failing(out0))
            json.dump(sorted(fails), open(cache, "w"))
            sh("git -C /repo worktree remove --force %s" % bw)
        base = set(json.load(open(cache)))
        rc1, out1 = sh("go test -vet=off -count=1 -timeout 20m ./%s/" % rel, cwd=os.path.join(WT, "utils"))
        f1 = set(failing(out1))
        extra = sorted(f1 - base)
        if extra:
            # flaky tests exist in this suite: retry once
            rc2, out2 = sh("go test -vet=off -count=1 -timeout 20m -run '^(%s)$' ./%s/" % ("|".join(x.split("/")[0] for x in extra), rel), cwd=os.path.join(WT, "utils"))
            extra = sorted(set(failing(out2)) - base)
        extra = [x for x in extra if x.split("/")[0] not in UNSTABLE]
        newfails[rel] = dict(baseline_failures=sorted(base), new_failures=extra, build_ok=("[build failed]" not in out1))
    res["existing_tests"] = newfails
    res["existing_tests_pass"] = all(not v["new_failures"] and v["build_ok"] for v in newfails.values())
finally:
    res["confirmed"] = bool(res.get("demo_passes_unchanged") and res.get("patch_applies") and res.get("builds") and res.get("demo_fails_with_change") and res.get("existing_tests_pass"))
    json.dump(res, open(os.path.join(D, "confirm.json"), "w"), indent=1)
    sh("git -C /repo worktree remove --force %s" % WT)
    print(ID, MN, "confirmed=%s" % res["confirmed"], {k: res.get(k) for k in ("demo_passes_unchanged", "patch_applies", "builds", "demo_fails_with_change", "existing_tests_pass")})

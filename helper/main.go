// vhelper is the process that the real-process checks (C05, C18) start through the library. Every member
// of a simulated process tree is an instance of it executing a script (JSON file given as the argument):
// write scripted chunks to stdout/stderr (optionally waiting until the pipe has been drained, which makes
// the chunking seen by the reader reproducible), spawn children in given shapes, ignore SIGTERM, keep or
// close the inherited pipes, sleep, exit with a code or die by a signal. Every instance records its pid in
// the scenario directory and destroys itself after 25 s so that nothing can leak.
package main

import (
	"encoding/json"
	"fmt"
	"os"
	"os/exec"
	"os/signal"
	"path/filepath"
	"strconv"
	"syscall"
	"time"
	"unsafe"
)

type Step struct {
	Op       string  `json:"op"` // write | spawn | sleep | ignoreterm | exit | kill | closepipes | mark | stopself
	Fd       int     `json:"fd,omitempty"`
	Data     string  `json:"data,omitempty"`
	Drain    bool    `json:"drain,omitempty"`
	Ms       int     `json:"ms,omitempty"`
	Code     int     `json:"code,omitempty"`
	Sig      string  `json:"sig,omitempty"`
	Child    *Script `json:"child,omitempty"`
	Wait     bool    `json:"wait,omitempty"`     // wait for the child before continuing
	NewGroup bool    `json:"newgroup,omitempty"` // the child leaves the process group (excluded from the property)
	Name     string  `json:"name,omitempty"`
}

type Script struct {
	Dir   string `json:"dir"`
	Name  string `json:"name"`
	Steps []Step `json:"steps"`
}

func pending(fd int) int {
	var n int32
	_, _, e := syscall.Syscall(syscall.SYS_IOCTL, uintptr(fd), uintptr(0x541B), uintptr(unsafe.Pointer(&n))) // FIONREAD
	if e != 0 {
		return 0
	}
	return int(n)
}

func run(s *Script) {
	_ = os.MkdirAll(filepath.Join(s.Dir, "pids"), 0o755)
	_ = os.WriteFile(filepath.Join(s.Dir, "pids", strconv.Itoa(os.Getpid())), []byte(s.Name), 0o644)
	time.AfterFunc(25*time.Second, func() { os.Exit(97) })
	for _, st := range s.Steps {
		switch st.Op {
		case "write":
			f := os.Stdout
			if st.Fd == 2 {
				f = os.Stderr
			}
			_, _ = f.Write([]byte(st.Data))
			if st.Drain {
				// wait until the reader has taken everything: the next write then starts a new chunk on its side
				deadline := time.Now().Add(3 * time.Second)
				for pending(int(f.Fd())) > 0 && time.Now().Before(deadline) {
					time.Sleep(200 * time.Microsecond)
				}
				time.Sleep(300 * time.Microsecond)
			}
		case "sleep":
			time.Sleep(time.Duration(st.Ms) * time.Millisecond)
		case "ignoreterm":
			signal.Ignore(syscall.SIGTERM)
		case "closepipes":
			devnull, _ := os.OpenFile(os.DevNull, os.O_RDWR, 0)
			_ = syscall.Dup2(int(devnull.Fd()), 1)
			_ = syscall.Dup2(int(devnull.Fd()), 2)
		case "mark":
			_ = os.WriteFile(filepath.Join(s.Dir, "mark-"+st.Name), []byte(strconv.Itoa(os.Getpid())), 0o644)
		case "spawn":
			child := *st.Child
			child.Dir = s.Dir
			b, _ := json.Marshal(&child)
			f, _ := os.CreateTemp(s.Dir, "script-*.json")
			_, _ = f.Write(b)
			_ = f.Close()
			cmd := exec.Command(os.Args[0], f.Name())
			cmd.Stdout, cmd.Stderr = os.Stdout, os.Stderr
			if st.NewGroup {
				cmd.SysProcAttr = &syscall.SysProcAttr{Setpgid: true}
			}
			if err := cmd.Start(); err != nil {
				fmt.Fprintln(os.Stderr, "spawn failed:", err)
				continue
			}
			if st.Wait {
				_ = cmd.Wait()
			} else {
				go func() { _ = cmd.Wait() }()
			}
		case "stopself":
			// suspend this process (SIGSTOP): a suspended member must still be killed by a stop request
			_ = syscall.Kill(os.Getpid(), syscall.SIGSTOP)
		case "exit":
			os.Exit(st.Code)
		case "kill":
			sig := syscall.SIGKILL
			switch st.Sig {
			case "TERM":
				sig = syscall.SIGTERM
			case "INT":
				sig = syscall.SIGINT
			case "SEGV":
				sig = syscall.SIGSEGV
			}
			_ = syscall.Kill(os.Getpid(), sig)
			time.Sleep(2 * time.Second)
		}
	}
}

func main() {
	if len(os.Args) < 2 {
		os.Exit(98)
	}
	b, err := os.ReadFile(os.Args[1])
	if err != nil {
		os.Exit(98)
	}
	s := &Script{}
	if err := json.Unmarshal(b, s); err != nil {
		os.Exit(98)
	}
	run(s)
}

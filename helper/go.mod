module verif/helper

go 1.23

#!/usr/bin/env python3
"""Driver of the deterministic-simulation checks (see DESIGN.md 2.10).

  verifctl.py setup
  verifctl.py check <ID> [--tier quick|thorough]
  verifctl.py replay <file>
  verifctl.py selftest-determinism <ID> [--seeds N]

Exit codes: 0 property held on everything explored (known findings are
printed as KNOWN-FINDING lines), 1 violation (a `VIOLATION property=<id>
replay=<path>` line per new signature), 2 infrastructure trouble (build,
watchdog, harness nondeterminism) - never reported as a violation.
"""
import json
import os
import re
import shutil
import subprocess
import sys
import time

VERIF = os.path.dirname(os.path.abspath(__file__))
BUILD = os.path.join(VERIF, ".build")
BIN = os.path.join(BUILD, "bin")
REPLAYS = os.path.join(VERIF, "replays")
EVIDENCE = os.path.join(VERIF, "evidence")
KNOWN = os.path.join(VERIF, "known_findings.txt")
NCPU = min(16, os.cpu_count() or 1)

GOENV = dict(os.environ)
GOENV.update({"GOFLAGS": "-mod=mod", "GOPROXY": "off", "GOSUMDB": "off", "GOTOOLCHAIN": "local",
              "CGO_ENABLED": GOENV.get("CGO_ENABLED", "1")})
GO126 = shutil.which("go1.26.8") or "/usr/local/bin/go1.26.8"

# engine -> (module dir, binary name, extra build flags)
ENGINES = {
    "sim": ("sim", "sim.test", []),
    "race": ("sim", "sim.race.test", ["-race"]),
    # real processes in lock-step: same worker binary plus the helper that plays the process trees
    "proc": ("sim", "sim.test", []),
}
HELPER = os.path.join(BIN, "vhelper")


def build_helper():
    os.makedirs(BIN, exist_ok=True)
    r = subprocess.run([GO126, "build", "-o", HELPER, "."], cwd=os.path.join(VERIF, "helper"), env=GOENV, stdout=subprocess.PIPE, stderr=subprocess.STDOUT, text=True)
    if r.returncode != 0:
        log("BUILD FAILED (exit 2):\n" + r.stdout[-3000:])
        sys.exit(2)

# property -> settings
PROPS = {
    "C01": dict(engine="sim", quick=45, thorough=900, level="exploration"),
    "C17": dict(engine="sim", quick=45, thorough=900, level="fault_enumeration"),
    "C12": dict(engine="sim", quick=40, thorough=700, level="exploration",
                parts=[dict(goprop="C12", engine="sim", share=0.6), dict(goprop="C12S", engine="race", share=0.4, gomaxprocs=4)]),
    "C14": dict(engine="sim", quick=30, thorough=600, level="exploration"),
    "C19": dict(engine="sim", quick=30, thorough=600, level="exploration"),
    "C20": dict(engine="sim", quick=30, thorough=600, level="fault_enumeration"),
    "C09": dict(engine="sim", quick=60, thorough=900, level="fault_enumeration"),
    "C06": dict(engine="sim", quick=60, thorough=900, level="exploration"),
    "C16": dict(engine="sim", quick=60, thorough=1200, level="fault_enumeration"),
    "C13": dict(engine="race", quick=45, thorough=600, level="exploration", gomaxprocs=4),
    "C18": dict(engine="sim", quick=50, thorough=700, level="exploration",
                parts=[dict(goprop="C18", engine="sim", share=0.4), dict(goprop="C18P", engine="proc", share=0.6, gomaxprocs=4)]),
    "C05": dict(engine="proc", quick=60, thorough=900, level="exploration", gomaxprocs=4),
}
DEFAULT_SEED = {"quick": 20260926, "thorough": 20260927}


def log(*a):
    print(*a, flush=True)


def build(engine):
    mod, binname, flags = ENGINES[engine]
    os.makedirs(BIN, exist_ok=True)
    moddir = os.path.join(VERIF, mod)
    # the module file points at the repository under test: /repo unless VERIF_REPO says otherwise
    # (used for background sweeps against a snapshot while /repo itself is being edited)
    repo = os.environ.get("VERIF_REPO", "/repo")
    modfile = os.path.join(BUILD, "go.sim.mod")
    os.makedirs(BUILD, exist_ok=True)
    with open(os.path.join(moddir, "go.mod")) as f:
        modtext = f.read().replace("=> /repo/utils", "=> %s/utils" % repo)
    with open(modfile, "w") as f:
        f.write(modtext)
    shutil.copy(os.path.join(repo, "utils", "go.sum"), os.path.join(BUILD, "go.sim.sum"))
    out = os.path.join(BIN, binname)
    if engine == "proc":
        build_helper()
    cmd = [GO126, "test", "-c", "-modfile", modfile, "-tags", "verif", "-o", out] + flags + ["."]
    t0 = time.time()
    r = subprocess.run(cmd, cwd=moddir, env=GOENV, stdout=subprocess.PIPE, stderr=subprocess.STDOUT, text=True)
    if r.returncode != 0:
        log("BUILD FAILED (exit 2):\n" + r.stdout[-6000:])
        sys.exit(2)
    log("built %s from %s working tree in %.1fs" % (binname, repo, time.time() - t0))
    return out


def run_workers(binary, specs, gomaxprocs, watchdog_s):
    """specs: list of dict; returns list of outputs (dict) or exits 2."""
    procs = []
    for sp in specs:
        with open(sp["_specfile"], "w") as f:
            json.dump({k: v for k, v in sp.items() if not k.startswith("_")}, f)
        env = dict(GOENV)
        env["VERIF_SPEC"] = sp["_specfile"]
        env["VERIF_SCRATCH"] = os.path.dirname(sp["_specfile"])
        env["VERIF_HELPER"] = HELPER
        env["GOMAXPROCS"] = str(sp.get("_gomaxprocs", gomaxprocs))
        if binary.endswith("race.test"):
            env["GORACE"] = "log_path=%s halt_on_error=0" % (sp["_specfile"] + ".race")
        lf = open(sp["_specfile"] + ".log", "w")
        p = subprocess.Popen([binary, "-test.run", "^TestWorker$", "-test.timeout", "0", "-test.count", "1"],
                             env=env, stdout=lf, stderr=subprocess.STDOUT, cwd=os.path.dirname(sp["_specfile"]))
        procs.append((p, sp, lf))
    deadline = time.time() + watchdog_s
    outs = []
    bad = []
    for p, sp, lf in procs:
        try:
            p.wait(timeout=max(1, deadline - time.time()))
        except subprocess.TimeoutExpired:
            p.kill()
            bad.append("worker %s exceeded the watchdog (%ds)" % (sp["_specfile"], watchdog_s))
            continue
        finally:
            lf.close()
        if p.returncode != 0 or not os.path.exists(sp["out"]):
            tail = open(sp["_specfile"] + ".log").read()[-3000:]
            bad.append("worker %s exit=%s\n%s" % (sp["_specfile"], p.returncode, tail))
            continue
        outs.append(json.load(open(sp["out"])))
    if bad:
        log("INFRASTRUCTURE FAILURE (exit 2):")
        for b in bad:
            log("  " + b)
        sys.exit(2)
    return outs


def load_known():
    findings, fixed = [], []
    if not os.path.exists(KNOWN):
        return findings, fixed
    for line in open(KNOWN):
        line = line.strip()
        if not line or line.startswith("#"):
            continue
        m = re.match(r'finding:\s+property=(\S+)\s+sig="([^"]*)"\s*(.*)', line)
        if m:
            findings.append(dict(prop=m.group(1), sig=m.group(2), text=m.group(3)))
            continue
        m = re.match(r'fixed:\s+property=(\S+)\s+(\S+)\s*(.*)', line)
        if m:
            fixed.append(dict(prop=m.group(1), commit=m.group(2), text=m.group(3)))
    return findings, fixed


def replay_in_fresh_process(binary, replay_file, workdir, tag):
    spec = dict(prop="", mode="replay", replay_file=replay_file, out=os.path.join(workdir, "replay-%s.json" % tag))
    spec["_specfile"] = os.path.join(workdir, "replay-%s.spec" % tag)
    spec["_gomaxprocs"] = 4
    outs = run_workers(binary, [spec], 4, 300)
    return outs[0]


def merge(outs):
    m = dict(runs=0, enumerated=0, enum_total=0, nontrivial=0, steps=0, sim_nanos=0, faults={}, probes={}, outcomes={},
             violations={}, nt=set(), samples=[], infra=[], divergent=[], digests={}, self_check=[0, 0], meta=None)
    for o in outs:
        m["runs"] += o["runs"]
        m["enumerated"] += o["enumerated"]
        m["enum_total"] = max(m["enum_total"], o["enum_total"])
        m["nontrivial"] += o["nontrivial"]
        m["steps"] += o["steps"]
        m["sim_nanos"] += o["sim_nanos"]
        for k in ("faults", "probes", "outcomes"):
            for kk, vv in (o.get(k) or {}).items():
                if kk.startswith("max:"):
                    m[k][kk] = max(m[k].get(kk, 0), vv)
                else:
                    m[k][kk] = m[k].get(kk, 0) + vv
        for sig, v in (o.get("violations") or {}).items():
            cur = m["violations"].get(sig)
            if cur is None:
                m["violations"][sig] = dict(v)
            else:
                cur["count"] += v["count"]
                if not cur.get("replay") and v.get("replay"):
                    cur["replay"] = v["replay"]
                    cur["index"] = v["index"]
        m["nt"].update(o.get("nt_digests") or [])
        m["samples"].extend(o.get("samples") or [])
        m["infra"].extend(o.get("infra") or [])
        m["divergent"].extend(o.get("divergent") or [])
        for idx, dg in (o.get("digest_list") or []):
            m["digests"][idx] = dg
        m["self_check"][0] += o["self_check"][0]
        m["self_check"][1] += o["self_check"][1]
        m["meta"] = m["meta"] or o.get("meta")
    return m


def run_part(prop, goprop, engine, gomaxprocs, tier, seed, budget, work, known_sigs):
    """Runs one (go property, engine) batch; returns merged results, or exits 2 on infrastructure trouble."""
    binary = build(engine)
    nworkers = NCPU
    tag = "%s-%s" % (goprop, engine)
    specs = []
    for w in range(nworkers):
        specs.append(dict(prop=goprop, mode="explore", tier=tier, base_seed=seed, start=w, stride=nworkers,
                          max_runs=int(os.environ.get("VERIF_MAX_RUNS", "0")), budget_sec=budget,
                          out=os.path.join(work, "%s-out-%d.json" % (tag, w)), replay_dir=os.path.join(work, "replays"),
                          shrink_sec=20.0 if tier == "quick" else 60.0, known_sigs=sorted(known_sigs),
                          _specfile=os.path.join(work, "%s-spec-%d.json" % (tag, w))))
    outs = run_workers(binary, specs, gomaxprocs, budget * 6 + 900)
    m = merge(outs)
    if m["infra"]:
        log("INFRASTRUCTURE FAILURE (exit 2): harness trouble inside runs:")
        for i in m["infra"][:10]:
            log("  " + i)
        sys.exit(2)
    # runs re-executed from their recorded choices must give the same trace. A residual tie between simulated timers
    # (two goroutines woken at the same simulated instant that then interact) is left to the Go runtime; such a run carries
    # no verdict (a violation only counts once its replay file reproduces it in a fresh process). More than a handful
    # means the simulator is not in control: exit 2.
    if m["self_check"][1]:
        for d in m["divergent"][:10]:
            log("  note: " + d)
        if m["self_check"][1] > max(2, m["self_check"][0] // 200):
            log("INFRASTRUCTURE FAILURE (exit 2): harness nondeterministic: %d of %d re-executed runs gave another trace digest" % (m["self_check"][1], m["self_check"][0]))
            sys.exit(2)
        log("note: %d of %d re-executed runs gave another trace digest (unresolved timer tie); reported in the evidence, no verdict drawn from them" % (m["self_check"][1], m["self_check"][0]))
    # cross-process determinism recheck at other GOMAXPROCS values
    idxs = sorted(m["digests"].keys())
    recheck = dict(seeds=0, mismatches=0)
    if idxs:
        sample = idxs[:: max(1, len(idxs) // (40 if tier == "quick" else 200))]
        rs = []
        for k, gmp in enumerate((4, 16)):
            rs.append(dict(prop=goprop, mode="recheck", tier=tier, base_seed=seed, indices=sample[k::2],
                           out=os.path.join(work, "%s-recheck-%d.json" % (tag, k)), _gomaxprocs=gmp,
                           _specfile=os.path.join(work, "%s-recheck-%d.spec" % (tag, k))))
        routs = run_workers(binary, rs, 4, budget * 3 + 600)
        for ro in routs:
            for idx, dg in ro.get("digest_list") or []:
                recheck["seeds"] += 1
                if m["digests"].get(idx) != dg:
                    recheck["mismatches"] += 1
        if recheck["mismatches"] > max(1, recheck["seeds"] // 100):
            log("INFRASTRUCTURE FAILURE (exit 2): harness nondeterministic: %d of %d re-executed seeds gave another trace digest" % (recheck["mismatches"], recheck["seeds"]))
            sys.exit(2)
    # violations: validate by replay in a fresh process, then classify
    new_violations = []
    known_seen = {}
    unconfirmed = []
    for sig, v in sorted(m["violations"].items()):
        rp = v.get("replay")
        if not rp or not os.path.exists(rp):
            log("INFRASTRUCTURE FAILURE (exit 2): violation without replay file: " + sig)
            sys.exit(2)
        ro = replay_in_fresh_process(binary, rp, work, "%s-v%d" % (tag, len(new_violations) + len(known_seen)))
        if sig in known_sigs:
            known_seen[sig] = v
            dst = os.path.join(REPLAYS, "known", os.path.basename(rp))
            os.makedirs(os.path.dirname(dst), exist_ok=True)
            shutil.copy(rp, dst)
            note = "" if ro.get("reproduced") else "; depends on a hardware interleaving, not reproduced by this replay"
            log("KNOWN-FINDING: property=%s %s [sig=%s; seen %d times; example replay=%s%s]" % (prop, known_sigs[sig]["text"], sig, v["count"], dst, note))
            continue
        if not ro.get("reproduced") and engine == "proc":
            # real processes on the real kernel: what happens between two script steps is not under the harness' control.
            # An observation that three fresh re-executions of the same scenario do not show again is not a verdict on
            # the code (and not trouble of the harness either): it is reported and recorded in the evidence, nothing more.
            log("UNCONFIRMED (no verdict): %s seen %d time(s), not shown again by re-executing its scenario [%s]: %s" % (sig, v["count"], rp, (v.get("detail") or "").split("\n")[0][:300]))
            dst = os.path.join(REPLAYS, "unconfirmed", os.path.basename(rp))
            os.makedirs(os.path.dirname(dst), exist_ok=True)
            shutil.copy(rp, dst)
            unconfirmed.append(dict(signature=sig, count=v["count"], detail=(v.get("detail") or "")[:500], scenario_file=dst))
            continue
        if not ro.get("reproduced"):
            log("INFRASTRUCTURE FAILURE (exit 2): violation %s did not reproduce from its replay file %s in a fresh process" % (sig, rp))
            sys.exit(2)
        if False:
            pass
        else:
            dst = os.path.join(REPLAYS, os.path.basename(rp))
            shutil.copy(rp, dst)
            new_violations.append((sig, v, dst))
    return dict(m=m, recheck=recheck, known_seen=known_seen, new_violations=new_violations, workers=nworkers, unconfirmed=unconfirmed)


def check(prop, tier):
    if prop not in PROPS:
        log("unknown property " + prop)
        sys.exit(2)
    cfg = PROPS[prop]
    t0 = time.time()
    seed = int(os.environ.get("VERIF_SEED", DEFAULT_SEED[tier]))
    work = os.path.join(BUILD, "work", "%s-%s-%d" % (prop, tier, os.getpid()))
    shutil.rmtree(work, ignore_errors=True)
    os.makedirs(work)
    os.makedirs(REPLAYS, exist_ok=True)
    budget = float(os.environ.get("VERIF_BUDGET", cfg[tier]))
    findings, _fixed = load_known()
    known_sigs = {f["sig"]: f for f in findings if f["prop"] == prop}
    # a check is one or more (go property, engine) parts
    parts = cfg.get("parts") or [dict(goprop=prop, engine=cfg["engine"], share=1.0, gomaxprocs=cfg.get("gomaxprocs", 1))]
    results = []
    for part in parts:
        results.append((part, run_part(prop, part["goprop"], part["engine"], part.get("gomaxprocs", 1), tier, seed, budget * part["share"], work, known_sigs)))
    wall = time.time() - t0
    main = results[0][1]
    m = main["m"]
    meta = m["meta"] or {}
    samples = []
    for _part, r in results:
        for s in r["m"]["samples"][:3]:
            samples.append(dict(run_index=s["index"], seed=s["seed"], config=s["config"], scheduled_steps=s["steps"], trace_head=s.get("trace_head") or []))
    tot = lambda key: sum(r["m"][key] for _p, r in results)
    def summ(key):
        out = {}
        for _p, r in results:
            for k, v in r["m"][key].items():
                out[k] = max(out.get(k, 0), v) if k.startswith("max:") else out.get(k, 0) + v
        return out
    new_violations = [x for _p, r in results for x in r["new_violations"]]
    known_seen = {}
    for _p, r in results:
        known_seen.update(r["known_seen"])
    cov = dict(
        evaluations=tot("runs"),
        distinct_nontrivial=sum(len(r["m"]["nt"]) for _p, r in results),
        rule=" || ".join((r["m"]["meta"] or {}).get("rule", "") for _p, r in results),
        samples=samples,
        exhaustive=False,
        enumerated_cases=tot("enumerated"),
        enumerated_cases_total=sum(r["m"]["enum_total"] for _p, r in results),
        nontrivial_runs=tot("nontrivial"),
        scheduled_steps=tot("steps"),
        simulated_seconds=round(tot("sim_nanos") / 1e9, 3),
        runs_per_hour=int(tot("runs") / max(wall, 1e-9) * 3600),
        workers=main["workers"],
        parts=[dict(go_property=p["goprop"], engine=p["engine"], runs=r["m"]["runs"], distinct_nontrivial=len(r["m"]["nt"])) for p, r in results],
        faults_fired=summ("faults"),
        probes=summ("probes"),
        run_outcomes=summ("outcomes"),
        determinism_recheck=dict(in_process_replays=sum(r["m"]["self_check"][0] for _p, r in results), cross_process_seeds=sum(r["recheck"]["seeds"] for _p, r in results),
                                 mismatches=sum(r["m"]["self_check"][1] + r["recheck"]["mismatches"] for _p, r in results),
                                 divergent_runs=[d for _p, r in results for d in r["m"]["divergent"]][:20]),
        known_findings_seen={k: v["count"] for k, v in known_seen.items()},
        unconfirmed_observations=[u for _p, r in results for u in r.get("unconfirmed", [])],
        new_violation_signatures=[s for s, _, _ in new_violations],
        components=dict(real=sorted({x for _p, r in results for x in (r["m"]["meta"] or {}).get("real", [])}), stub=sorted({x for _p, r in results for x in (r["m"]["meta"] or {}).get("stub", [])})),
    )
    assumptions = []
    for _p, r in results:
        for a in (r["m"]["meta"] or {}).get("assumptions", []):
            if a not in assumptions:
                assumptions.append(a)
    ev = dict(property_id=prop, tier=tier, seed=seed, level=meta.get("level") or cfg["level"], coverage=cov,
              assumptions=assumptions, wall_s=round(wall, 2), violations=len(new_violations))
    os.makedirs(EVIDENCE, exist_ok=True)
    with open(os.path.join(EVIDENCE, prop + ".json"), "w") as f:
        json.dump(ev, f, indent=1)
    log("%s %s: %d runs (%d enumerated of %d), %d non-trivial, %d distinct non-trivial traces, %.0f simulated s, %.1fs wall; faults=%s probes=%s outcomes=%s"
        % (prop, tier, cov["evaluations"], cov["enumerated_cases"], cov["enumerated_cases_total"], cov["nontrivial_runs"], cov["distinct_nontrivial"], cov["simulated_seconds"], wall,
           json.dumps(cov["faults_fired"], sort_keys=True), json.dumps(cov["probes"], sort_keys=True), json.dumps(cov["run_outcomes"], sort_keys=True)))
    shutil.rmtree(work, ignore_errors=True)
    if new_violations:
        for sig, v, dst in new_violations:
            log("violation: %s (%s) seen %d times: %s" % (sig, v["kind"], v["count"], v["detail"].split("\n")[0][:400]))
            log("VIOLATION property=%s replay=%s" % (prop, dst))
        sys.exit(1)
    sys.exit(0)


GO_PROPS = {"C12S": ("C12", "race"), "C18P": ("C18", "proc")}


def replay(path):
    rf = json.load(open(path))
    prop = rf["property"]
    engine = None
    if prop in GO_PROPS:
        prop, engine = GO_PROPS[prop]
    cfg = PROPS[prop]
    binary = build(engine or cfg["engine"])
    work = os.path.join(BUILD, "work", "replay-%d" % os.getpid())
    os.makedirs(work, exist_ok=True)
    ro = replay_in_fresh_process(binary, os.path.abspath(path), work, "x")
    res = ro["result"]
    log("expected signature: " + ro["expected_signature"])
    for v in res.get("violations") or []:
        log("violation: %s | %s" % (v["sig"], v["detail"].split("\n")[0][:600]))
    tr = res.get("trace") or []
    log("trace: %d lines (last 30 shown)" % len(tr))
    for l in tr[-30:]:
        log("   " + l)
    shutil.rmtree(work, ignore_errors=True)
    if ro["reproduced"]:
        log("VIOLATION property=%s replay=%s" % (prop, path))
        sys.exit(1)
    log("not reproduced")
    sys.exit(0)


def selftest_determinism(prop, nseeds):
    cfg = PROPS[prop]
    binary = build(cfg["engine"])
    if cfg.get("parts"):
        prop = cfg["parts"][0]["goprop"]
    work = os.path.join(BUILD, "work", "det-%s-%d" % (prop, os.getpid()))
    shutil.rmtree(work, ignore_errors=True)
    os.makedirs(work)
    idxs = list(range(nseeds))
    specs = []
    k = 0
    for gmp in (1, 4, 16):
        for rep in range(2):
            for part in range(4):
                specs.append(dict(prop=prop, mode="recheck", tier="quick", base_seed=DEFAULT_SEED["quick"], indices=idxs[part::4],
                                  out=os.path.join(work, "d-%d.json" % k), _gomaxprocs=gmp, _specfile=os.path.join(work, "d-%d.spec" % k)))
                k += 1
    outs = []
    for i in range(0, len(specs), NCPU):
        outs += run_workers(binary, specs[i:i + NCPU], 1, 3600)
    seen = {}
    mism = 0
    for o in outs:
        if o.get("infra"):
            log("infra: %s" % o["infra"][:3])
        for idx, dg in o.get("digest_list") or []:
            if idx in seen and seen[idx] != dg:
                mism += 1
                log("MISMATCH index %d: %x vs %x" % (idx, seen[idx], dg))
            seen.setdefault(idx, dg)
    log("determinism self-test %s: %d seeds x 6 executions (GOMAXPROCS 1/4/16, separate processes): %d mismatches" % (prop, len(seen), mism))
    shutil.rmtree(work, ignore_errors=True)
    sys.exit(2 if mism else 0)


def setup():
    for e in ENGINES:
        build(e)
    build_helper()
    log("setup done")


def main():
    a = sys.argv[1:]
    if not a:
        print(__doc__)
        sys.exit(2)
    if a[0] == "setup":
        setup()
    elif a[0] == "check":
        tier = os.environ.get("VERIF_TIER", "quick")
        if "--tier" in a:
            tier = a[a.index("--tier") + 1]
        check(a[1], tier)
    elif a[0] == "replay":
        replay(a[1])
    elif a[0] == "selftest-determinism":
        n = 200
        if "--seeds" in a:
            n = int(a[a.index("--seeds") + 1])
        selftest_determinism(a[1], n)
    else:
        print(__doc__)
        sys.exit(2)


if __name__ == "__main__":
    main()
